/-
Lemmas connecting the member model (Hts.Model.Member) with the independent specification
(Hts.Spec.Rfc1952): the bytes `writeBlock` produces parse under the RFC 1952 grammar and satisfy the
BGZF constraints.
-/
import Hts.Lemmas.BgzfMember
import Hts.Spec.Rfc1952
namespace Hts.Model.Member
open Hts.Spec

def ext (c : CodecFns) : Rfc1952.Ext := ⟨c.inflate, c.crc32⟩

def specMember (c : CodecFns) (h : Header) (p : List Byte) (bsz : Nat) : Rfc1952.Member :=
  { flg := (flgOf h).toNat, mtime := h.mtime % 2 ^ 32, xfl := c.xfl.toNat, os := h.os.toNat,
    extra := some (66 :: 67 :: 2 :: 0 :: UInt8.ofNat (bsz % 256) :: UInt8.ofNat (bsz / 256 % 256) :: h.extra),
    name := if h.name = [] then none else some (h.name.map UInt8.ofNat),
    comment := if h.comment = [] then none else some (h.comment.map UInt8.ofNat),
    data := p, size := memberLen c h p }

theorem splitAtN_cons6 (a b c d e f : Byte) (ex t : List Byte) :
    Rfc1952.splitAtN (6 + ex.length) (a :: b :: c :: d :: e :: f :: (ex ++ t)) = some (a :: b :: c :: d :: e :: f :: ex, t) := by
  have : 6 + ex.length = (a :: b :: c :: d :: e :: f :: ex).length := by simp; omega
  rw [this, show a :: b :: c :: d :: e :: f :: (ex ++ t) = (a :: b :: c :: d :: e :: f :: ex) ++ t by simp]
  simp [Rfc1952.splitAtN]

theorem zstring_append (bs t : List Byte) (h : ∀ b ∈ bs, b ≠ 0) : Rfc1952.zstring (bs ++ 0 :: t) = some (bs, t) := by
  induction bs with
  | nil => simp [Rfc1952.zstring]
  | cons b bs ih =>
    have hb : b ≠ 0 := h b (by simp)
    simp [Rfc1952.zstring, hb, ih (fun x hx => h x (by simp [hx]))]

theorem spec_le16 (n : Nat) (h : n < 65536) :
    Rfc1952.le16 (UInt8.ofNat (n % 256)) (UInt8.ofNat (n / 256 % 256)) = n := u16_le16 n h
theorem spec_le32 (n : Nat) (h : n < 2 ^ 32) :
    Rfc1952.le32 (UInt8.ofNat (n % 256)) (UInt8.ofNat (n / 256 % 256)) (UInt8.ofNat (n / 65536 % 256))
      (UInt8.ofNat (n / 16777216 % 256)) = n := u32_le32 n h

theorem parseMember_member (c : Codec) (h : Header) (p : List Byte) (bsz : Nat) (rest : List Byte) (hk : HdrOK h) :
    Rfc1952.parseMember (ext c.toCodecFns) (memberBytes c.toCodecFns h p bsz ++ rest) = some (specMember c.toCodecFns h p bsz, rest) := by
  have hx : 6 + h.extra.length < 65536 := by have := hk.extra_le; omega
  have hname : ∀ b ∈ h.name.map UInt8.ofNat, b ≠ 0 := by
    intro b hb; simp at hb; obtain ⟨v, hv, rfl⟩ := hb; exact ofNat_ne_zero v (hk.name_ok v hv)
  have hcomm : ∀ b ∈ h.comment.map UInt8.ofNat, b ≠ 0 := by
    intro b hb; simp at hb; obtain ⟨v, hv, rfl⟩ := hb; exact ofNat_ne_zero v (hk.comment_ok v hv)
  have hm : h.mtime % 2 ^ 32 < 2 ^ 32 := Nat.mod_lt _ (by decide)
  have hcrc := c.crc32_lt p
  have hisz : p.length % 2 ^ 32 < 2 ^ 32 := Nat.mod_lt _ (by decide)
  by_cases hn : h.name = [] <;> by_cases hc : h.comment = []
  all_goals
    simp [memberBytes, afterExtra, zbytes, flgOf, hn, hc, Rfc1952.parseMember, Rfc1952.bit, spec_le16 _ hx, splitAtN_cons6,
      ext, c.inflate_deflate, le32, zstring_append _ _ hname, zstring_append _ _ hcomm, specMember, memberLen]
    refine ⟨⟨?_, ?_⟩, ?_, ?_⟩ <;> (try simp only [Rfc1952.le32, UInt8.toNat_ofNat']) <;> omega

/-! ### BGZF constraints -/

theorem subfields_bc (lo hi : Byte) (ex : List Byte) (subs : List (Byte × Byte × List Byte))
    (h : Rfc1952.subfields ex = some subs) :
    Rfc1952.subfields (66 :: 67 :: 2 :: 0 :: lo :: hi :: ex) = some ((66, 67, [lo, hi]) :: subs) := by
  rw [Rfc1952.subfields]
  simp [Rfc1952.le16, h]

/-- the user's extra bytes are a well-formed sequence of RFC 1952 sub-fields -/
def WFExtra (h : Header) : Prop := (Rfc1952.subfields h.extra).isSome

theorem isBgzf_specMember (c : CodecFns) (h : Header) (p : List Byte) (hw : WFExtra h)
    (hlen : memberLen c h p ≤ BgzfWriter.MaxBlockSize) (hp : p.length ≤ BgzfWriter.BlockSize) :
    Rfc1952.IsBgzf (specMember c h p (memberLen c h p - 1)) := by
  have h18 : 18 ≤ memberLen c h p := by simp [memberLen]; omega
  have hb : memberLen c h p - 1 < 65536 := by simp [BgzfWriter.MaxBlockSize] at hlen; omega
  obtain ⟨subs, hs⟩ := Option.isSome_iff_exists.mp hw
  refine ⟨?_, ⟨_, _, rfl, subfields_bc _ _ _ _ hs, ?_⟩, ?_, ?_, ?_⟩
  · simp only [specMember, flgOf, Rfc1952.bit]
    by_cases hn : h.name = [] <;> by_cases hc : h.comment = [] <;> simp [hn, hc] <;> decide
  · simp [Rfc1952.bsizeOf, specMember, spec_le16 _ hb]
  · simp only [specMember]; omega
  · simpa [specMember, Rfc1952.BlockMax, BgzfWriter.MaxBlockSize] using hlen
  · simpa [specMember, Rfc1952.PayloadMax, BgzfWriter.BlockSize] using hp

theorem specMember_strict (c : CodecFns) (h : Header) (p : List Byte) (bsz : Nat)
    (hn : h.name = []) (hc : h.comment = []) : (specMember c h p bsz).flg = 4 := by
  simp [specMember, flgOf, hn, hc]

/-! ### the EOF marker under the specification -/

def markerMember : Rfc1952.Member :=
  { flg := 4, mtime := 0, xfl := 0, os := 255, extra := some [66, 67, 2, 0, 27, 0], name := none, comment := none,
    data := [], size := 28 }

theorem parseMember_marker (c : Codec) (rest : List Byte) :
    Rfc1952.parseMember (ext c.toCodecFns) (magicBlock ++ rest) = some (markerMember, rest) := by
  simp [magicBlock, Rfc1952.parseMember, Rfc1952.bit, Rfc1952.le16, Rfc1952.splitAtN, ext, c.inflate_marker,
    c.crc32_nil, Rfc1952.le32, markerMember]
  omega

theorem isBgzf_marker : Rfc1952.IsStrictBgzf markerMember := by
  refine ⟨⟨by decide, ⟨_, [(66, 67, [27, 0])], rfl, ?_, by simp [Rfc1952.bsizeOf, Rfc1952.le16, markerMember]⟩,
    by decide, by decide, by decide⟩, rfl⟩
  rw [Rfc1952.subfields]; simp [Rfc1952.le16, Rfc1952.subfields]

end Hts.Model.Member
