/-
The model's formatter and the specification's formatter produce the same line.  Core only.
-/
import Hts.Lemmas.SamRecord
namespace Hts.Model.SamText
open Hts.Model.Coord (CigarOp)
open Hts.Spec.SamLine (decimal signedDecimal samLine tabJoin fields)

theorem coreDigit : ∀ d, d < 10 → UInt8.ofNat (Nat.digitChar d).toNat = digitChar d := by decide

theorem toDigitsCore_showNat : ∀ fuel n (ds : List Char), n < fuel →
    (Nat.toDigitsCore 10 fuel n ds).map (fun c => UInt8.ofNat c.toNat) =
      showNat n ++ ds.map (fun c => UInt8.ofNat c.toNat) := by
  intro fuel
  induction fuel with
  | zero => intro n ds h; omega
  | succ fuel ih =>
    intro n ds h
    rw [Nat.toDigitsCore.eq_2, showNat_unfold]
    by_cases hn : n < 10
    · have h0 : n / 10 = 0 := by omega
      have hm : n % 10 = n := by omega
      simp only [h0, if_true, hn, List.map_cons, hm, coreDigit n hn]
      rfl
    · have h0 : ¬ n / 10 = 0 := by omega
      simp only [h0, if_false, hn]
      rw [ih (n / 10) _ (by omega)]
      simp only [List.map_cons, coreDigit (n % 10) (by omega), List.append_assoc, List.singleton_append]

/-- the specification's decimal (the core library's digits) is the model's `%d` -/
theorem decimal_eq_showNat (n : Nat) : decimal n = showNat n := by
  unfold decimal Nat.toDigits
  rw [toDigitsCore_showNat (n + 1) n [] (by omega)]
  simp

theorem signedDecimal_eq_showInt (i : Int) : signedDecimal i = showInt i := by
  unfold signedDecimal showInt
  simp only [decimal_eq_showNat]

theorem tabJoin_eq_joinWith (l : List Bytes) : tabJoin l = joinWith 9 l := by
  induction l with
  | nil => rfl
  | cons f rest ih =>
    cases rest with
    | nil => rfl
    | cons g gs => rw [tabJoin, joinWith, ih]

theorem baseOfCode_eq : ∀ x : Fin 16, Hts.Spec.SamLine.baseOfCode x = baseChar x := by decide

theorem cigarOpChar_eq : ∀ t, t ≤ 8 → Hts.Spec.SamLine.cigarOpChar t = opLetter t := by decide

theorem hexString_eq (b : Bytes) : Hts.Spec.SamLine.hexString b = hexEncode b := rfl

theorem cigarString_eq (c : List CigarOp) (h : ∀ co ∈ c, co.typ ≤ 8) :
    Hts.Spec.SamLine.cigarString (c.map fun co => (co.len, co.typ)) = formatCigar c := by
  unfold Hts.Spec.SamLine.cigarString formatCigar
  cases c with
  | nil => rfl
  | cons co rest =>
    simp only [List.map_cons, List.flatMap_cons, List.flatMap_map, List.isEmpty_cons, Bool.false_eq_true, if_false,
      decimal_eq_showNat, cigarOpChar_eq co.typ (h co List.mem_cons_self)]
    congr 1
    have hr : ∀ x ∈ rest, x.typ ≤ 8 := fun x hx => h x (List.mem_cons_of_mem _ hx)
    clear h
    induction rest with
    | nil => rfl
    | cons y ys ih =>
      simp only [List.flatMap_cons, cigarOpChar_eq y.typ (hr y List.mem_cons_self)]
      rw [ih (fun x hx => hr x (List.mem_cons_of_mem _ hx))]

theorem seqString_eq (s : List (Fin 16)) : Hts.Spec.SamLine.seqString (s.map Hts.Spec.SamLine.baseOfCode) = formatSeq s := by
  unfold Hts.Spec.SamLine.seqString formatSeq
  cases s with
  | nil => rfl
  | cons x s =>
    simp only [List.map_cons, List.isEmpty_cons, Bool.false_eq_true, if_false, baseOfCode_eq]
    congr 1

theorem qualString_eq (q : Option Bytes) : Hts.Spec.SamLine.qualString (specQual q) = formatQual q := by
  unfold Hts.Spec.SamLine.qualString specQual formatQual
  cases q with
  | none => rfl
  | some q =>
    simp only
    split
    · rename_i heq; split at heq
      · exact absurd heq (by simp)
      · rename_i hany; simp [hany]
    · rename_i q' heq
      split at heq
      · rename_i hany
        injection heq with e
        subst e
        simp only [hany, if_true, List.map_map]
        apply List.map_congr_left
        intro x _
        simp only [Function.comp]
        apply UInt8.toNat_inj.mp
        simp [UInt8.toNat_add]
      · exact absurd heq (by simp)

theorem rnext_eq (ref mate : Option Ref) :
    Hts.Spec.SamLine.rnextString (specRNext ref mate) = formatMate ref mate := by
  unfold Hts.Spec.SamLine.rnextString specRNext formatMate
  cases mate with
  | none => rfl
  | some m => by_cases he : ref = some m <;> simp [he]

theorem rname_eq (ref : Option Ref) : Hts.Spec.SamLine.rnameString (ref.map (·.name)) = refName ref := by
  cases ref <;> rfl

/-- an optional field prints as the specification says, given an ASCII `A` character -/
theorem optString_eq (ft : FloatText) (a : Aux) (h : ∀ c, a.val = .char c → c < 128) :
    Hts.Spec.SamLine.optString ft.fmt (optOfAux a) = formatAux ft a := by
  obtain ⟨t0, t1, v⟩ := a
  unfold Hts.Spec.SamLine.optString optOfAux formatAux
  cases v with
  | char c =>
    have : utf8OfByte c = [c] := by unfold utf8OfByte; simp [h c rfl]
    simp [this]
  | int ty w => simp [signedDecimal_eq_showInt]
  | float b => simp
  | text s => simp
  | hex b => simp [hexString_eq]
  | ints ty vs => simp [signedDecimal_eq_showInt]
  | floats bs => simp

/-- the model's fields are the specification's fields of the record's abstraction -/
theorem fields_eq (ft : FloatText) (r : Record) (hi : IntsOK r) (hc : ∀ co ∈ r.cigar, co.typ ≤ 8)
    (ha : ∀ a ∈ r.aux, ∀ c, a.val = .char c → c < 128) :
    fields ft.fmt (toSpec r) = recordFields ft .dec r := by
  obtain ⟨hp1, hp2, hm1, hm2, _, _⟩ := hi
  unfold fields recordFields toSpec
  simp only [decimal_eq_showNat, signedDecimal_eq_showInt, rname_eq, rnext_eq, cigarString_eq r.cigar hc,
    seqString_eq, qualString_eq, formatFlags, List.map_map,
    wrap64_id (r.pos + 1) (by omega) (by omega), wrap64_id (r.matePos + 1) (by omega) (by omega)]
  congr 1
  apply List.map_congr_left
  intro a hmem
  exact optString_eq ft a (ha a hmem)

end Hts.Model.SamText
