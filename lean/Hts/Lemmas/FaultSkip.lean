/-
The faulty sequential reader: the empty-block skipping loop.
-/
import Hts.Lemmas.FaultLoad
namespace Hts.Model.Bgzf
open Hts.Spec.Flat

/-- The reader holds the block of a failed load and has the error latched (`bg.err`). -/
def Latched (x : FReader) (e : Err) : Prop := x.r.err = some e ∧ x.r.cur.hasData = false

structure SkipRes (F : File) (x x' : FReader) (pos : Nat) : Prop where
  file : x'.r.file = F
  last : x'.r.lastChunk = x.r.lastChunk
  blocked : x'.r.blocked = x.r.blocked
  noeof : NoEof x.oracle → NoEof x'.oracle
  out : (∃ pre' m' post' k', At F x'.r pre' m' post' k' ∧ k' < m'.data.length ∧ flatLen pre' + k' = pos ∧
          post'.length ≤ F.length) ∨
        (∃ e, Latched x' e ∧ (e = .eof ∨ e = .other) ∧ (e = .eof → NoEof x.oracle → pos = flatLen F))

theorem fskipEmpty_spec {F : File} (hwf : WF F) :
    ∀ (fuel : Nat) (x : FReader) (pre : File) (m : Member) (post : File) (k : Nat),
      At F x.r pre m post k → post.length < fuel →
      SkipRes F x (x.skipEmpty fuel) (flatLen pre + k) := by
  intro fuel
  induction fuel with
  | zero => intro x pre m post k _ hf; omega
  | succ fuel ih =>
    intro x pre m post k h hfuel
    have hplen : post.length ≤ F.length := by rw [h.split]; simp; omega
    by_cases hl : x.r.cur.len = 0
    · have hk : k = m.data.length := by
        have := h.le; rw [h.cur] at hl; simp [Block.len] at hl; omega
      have ⟨hor, hnb⟩ := fnextBlock_at hwf h.file h.split h.cur
      simp only [FReader.skipEmpty, hl, if_true]
      rcases hnb with ⟨m', post', hp, he, hc⟩ | ⟨e, he, hc, hee, heof⟩
      · rcases hx : x.nextBlock with ⟨x', e'⟩
        rw [hx] at hor he hc
        simp only at hor he hc
        subst he
        simp only
        have h1 : At F (x'.withR fun r => { r with err := none }).r (pre ++ [m]) m' post' 0 := by
          refine ⟨?_, by rw [h.split, hp]; simp, ?_, Nat.zero_le _, rfl⟩
          · simp [FReader.withR, hc, h.file]
          · simp [FReader.withR, hc]
        have := ih _ (pre ++ [m]) m' post' 0 h1 (by rw [hp] at hfuel; simp at hfuel; omega)
        have hpos : flatLen (pre ++ [m]) + 0 = flatLen pre + k := by simp [flatLen, hk]
        rw [hpos] at this
        refine ⟨this.file, ?_, ?_, ?_, ?_⟩
        · rw [this.last]; simp [FReader.withR, hc]
        · rw [this.blocked]; simp [FReader.withR, hc]
        · intro hn; apply this.noeof; simp only [FReader.withR]; rw [hor]; exact hn.tail
        · rcases this.out with hA | ⟨e, hL, he1, he2⟩
          · exact Or.inl hA
          · refine Or.inr ⟨e, hL, he1, fun h1 h2 => he2 h1 ?_⟩
            simp only [FReader.withR]; rw [hor]; exact h2.tail
      · rcases hx : x.nextBlock with ⟨x', e'⟩
        rw [hx] at hor he hc
        simp only at hor he hc
        subst he
        simp only
        refine ⟨by simp [FReader.withR, hc, h.file], by simp [FReader.withR, hc], by simp [FReader.withR, hc],
          fun hn => by simp only [FReader.withR]; rw [hor]; exact hn.tail, Or.inr ⟨e, ?_, hee, ?_⟩⟩
        · exact ⟨by simp [FReader.withR], by simp [FReader.withR, hc, Block.hasData, Block.failed]⟩
        · intro he1 hn
          rcases heof he1 with hp | hin
          · rw [h.split, hp, hk]; simp [flatLen]
          · exact absurd rfl (hn _ hin)
    · simp only [FReader.skipEmpty, hl, if_false]
      have hk : k < m.data.length := by
        have := h.le; rw [h.cur] at hl; simp [Block.len] at hl; omega
      exact ⟨h.file, rfl, rfl, id, Or.inl ⟨pre, m, post, k, h, hk, rfl, hplen⟩⟩

end Hts.Model.Bgzf
