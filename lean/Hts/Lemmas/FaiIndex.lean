/-
C19 helper lemmas, part 3: `newIndex` on the rendering of a well-formed file yields exactly the true entries.
-/
import Hts.Lemmas.FaiStep
set_option linter.unusedVariables false
set_option linter.unusedSimpArgs false
namespace Hts.Lemmas.Fai
open Hts.Model.Fai
open Hts.Spec.Fasta (isGraphic isBase isDescByte isBlankByte Rec Eol Entry seqLines terminate blankLines
  entriesFrom recsWf namesDistinct descOK)

/-- a Spec entry as a model record -/
def ofEntry (e : Entry) : Record := ⟨e.name, e.length, e.start, e.basesPerLine, e.bytesPerLine⟩

/-! ### unfolding `seqLines` -/

theorem seqLines_nil (w : Nat) : seqLines w [] = [] := by
  rw [seqLines]; simp

theorem seqLines_single (w : Nat) (bs : Bytes) (hne : bs ≠ []) (h : bs.length ≤ w) : seqLines w bs = [bs] := by
  rw [seqLines]; simp [h, hne]

theorem seqLines_multi (w : Nat) (bs : Bytes) (hw : 1 ≤ w) (h : w < bs.length) :
    seqLines w bs = bs.take w :: seqLines w (bs.drop w) := by
  rw [seqLines]
  have : ¬ (w = 0 ∨ bs.length ≤ w) := by omega
  simp [this]

theorem seqLines_ne_nil (w : Nat) (bs : Bytes) (hne : bs ≠ []) : seqLines w bs ≠ [] := by
  rw [seqLines]
  split
  · simp [hne]
  · simp

theorem terminate_cons_ne (eol : Bytes) (fin : Bool) (l : Bytes) (ls : List Bytes) (h : ls ≠ []) :
    terminate eol fin (l :: ls) = (l ++ eol) :: terminate eol fin ls := by
  cases ls with
  | nil => exact absurd rfl h
  | cons l' ls' => rfl

theorem ite_append (fin : Bool) (l eol : Bytes) :
    (if fin = true then l ++ eol else l) = l ++ (if fin = true then eol else []) := by
  cases fin <;> simp

/-! ### the sequence lines of a record -/

theorem steps_seq_rest_aux (w : Nat) (eol : Bytes) (fin : Bool) (hw : 1 ≤ w)
    (he : ∀ b ∈ eol, isSpace b = true) (n : Nat) :
    ∀ (bs : Bytes) (st : ScanState), bs.length ≤ n → bs ≠ [] → (∀ b ∈ bs, isBase b = true) →
      st.wantDescLine = false →
      st.pending.basesPerLine = w → st.pending.bytesPerLine = w + eol.length →
      ∃ wd, steps st (terminate eol fin (seqLines w bs)) =
        .ok ⟨st.idx, ⟨st.pending.name, st.pending.length + bs.length, st.pending.start, w, w + eol.length⟩,
             st.offset + (terminate eol fin (seqLines w bs)).flatten.length, wd⟩ := by
  induction n with
  | zero =>
    intro bs st hn hne
    exact absurd (List.eq_nil_of_length_eq_zero (Nat.le_zero.mp hn)) hne
  | succ n ih =>
    intro bs st hn hne hb hwd hbpl hBPL
    by_cases hlen : bs.length ≤ w
    · -- last line
      rw [seqLines_single w bs hne hlen]
      simp only [terminate, steps, ite_append]
      have ht : ∀ b ∈ (if fin = true then eol else []), isSpace b = true := by
        cases fin <;> simp; exact he
      have hlt : (if fin = true then eol else ([] : Bytes)).length ≤ eol.length := by
        cases fin <;> simp
      rw [step_seq st bs _ hne hb ht hwd]
      simp only [hbpl, hBPL, List.length_append]
      have h1 : ¬ (w + eol.length ≠ 0 ∧ bs.length + (if fin = true then eol else ([] : Bytes)).length > w + eol.length) := by
        omega
      have h2 : ¬ (w ≠ 0 ∧ bs.length > w) := by omega
      have h3 : w ≠ 0 := by omega
      have h4 : w + eol.length ≠ 0 := by omega
      simp only [h1, h2, h3, h4, if_false, List.flatten_cons, List.flatten_nil, List.append_nil, List.length_append]
      exact ⟨_, rfl⟩
    · -- a full line, more to come
      have hlen' : w < bs.length := by omega
      rw [seqLines_multi w bs hw hlen']
      have hdne : bs.drop w ≠ [] := by
        intro h
        have := congrArg List.length h
        simp at this; omega
      rw [terminate_cons_ne _ _ _ _ (seqLines_ne_nil w _ hdne)]
      simp only [steps]
      have htk : bs.take w ≠ [] := by
        intro h
        have := congrArg List.length h
        rw [List.length_take, List.length_nil] at this; omega
      have htkb : ∀ b ∈ bs.take w, isBase b = true := fun b hb' => hb b (List.mem_of_mem_take hb')
      rw [step_seq st (bs.take w) eol htk htkb he hwd]
      have hl : (bs.take w).length = w := by simp; omega
      simp only [hbpl, hBPL, List.length_append, hl]
      have h1 : ¬ (w + eol.length ≠ 0 ∧ w + eol.length > w + eol.length) := by omega
      have h2 : ¬ (w ≠ 0 ∧ w > w) := by omega
      have h3 : w ≠ 0 := by omega
      have h4 : w + eol.length ≠ 0 := by omega
      have h5 : ¬ (w + eol.length ≠ 0 ∧ w + eol.length < w + eol.length) := by omega
      have h6 : ¬ (w ≠ 0 ∧ w < w) := by omega
      simp only [h1, h2, h3, h4, h5, if_false, decide_false, Bool.or_self]
      have hdl : (bs.drop w).length ≤ n := by simp; omega
      obtain ⟨wd, hwd'⟩ := ih (bs.drop w)
        ⟨st.idx, ⟨st.pending.name, st.pending.length + w, st.pending.start, w, w + eol.length⟩,
          st.offset + (w + eol.length), false⟩ hdl hdne
        (fun b hb' => hb b (List.mem_of_mem_drop hb')) rfl rfl rfl
      refine ⟨wd, ?_⟩
      simp only at hwd'
      have e1 : st.pending.length + w + (bs.drop w).length = st.pending.length + bs.length := by
        rw [List.length_drop]; omega
      have e2 : ∀ X, st.offset + (w + eol.length) + X = st.offset + (w + eol.length + X) := by
        intro X; omega
      rw [hwd', e1, e2]
      simp only [List.flatten_cons, List.length_append, hl]

theorem steps_seq_rest (w : Nat) (eol : Bytes) (fin : Bool) (hw : 1 ≤ w)
    (he : ∀ b ∈ eol, isSpace b = true) (bs : Bytes) (st : ScanState) (hne : bs ≠ [])
    (hb : ∀ b ∈ bs, isBase b = true) (hwd : st.wantDescLine = false)
    (hbpl : st.pending.basesPerLine = w) (hBPL : st.pending.bytesPerLine = w + eol.length) :
    ∃ wd, steps st (terminate eol fin (seqLines w bs)) =
      .ok ⟨st.idx, ⟨st.pending.name, st.pending.length + bs.length, st.pending.start, w, w + eol.length⟩,
           st.offset + (terminate eol fin (seqLines w bs)).flatten.length, wd⟩ :=
  steps_seq_rest_aux w eol fin hw he bs.length bs st (Nat.le_refl _) hne hb hwd hbpl hBPL

theorem steps_seq_first (w : Nat) (eol : Bytes) (fin : Bool) (hw : 1 ≤ w)
    (he : ∀ b ∈ eol, isSpace b = true) (bs : Bytes) (st : ScanState) (hne : bs ≠ [])
    (hb : ∀ b ∈ bs, isBase b = true) (hwd : st.wantDescLine = false)
    (hp0 : st.pending.length = 0) (hp1 : st.pending.basesPerLine = 0) (hp2 : st.pending.bytesPerLine = 0) :
    ∃ wd, steps st (terminate eol fin (seqLines w bs)) =
      .ok ⟨st.idx,
        ⟨st.pending.name, bs.length, st.pending.start, (bs.take w).length,
          (bs.take w).length + (if bs.length ≤ w ∧ fin = false then 0 else eol.length)⟩,
        st.offset + (terminate eol fin (seqLines w bs)).flatten.length, wd⟩ := by
  by_cases hlen : bs.length ≤ w
  · rw [seqLines_single w bs hne hlen]
    simp only [terminate, steps, ite_append]
    have ht : ∀ b ∈ (if fin = true then eol else []), isSpace b = true := by
      cases fin <;> simp; exact he
    rw [step_seq st bs _ hne hb ht hwd]
    simp only [hp0, hp1, hp2, List.length_append, ne_eq, not_true_eq_false, false_and, if_false, if_true,
      decide_false, Bool.or_self, Nat.zero_add, List.flatten_cons, List.flatten_nil, List.append_nil]
    have e1 : (bs.take w).length = bs.length := by rw [List.length_take]; omega
    have e2 : (if fin = true then eol else ([] : Bytes)).length =
        (if bs.length ≤ w ∧ fin = false then 0 else eol.length) := by
      cases fin <;> simp [hlen]
    rw [e1, e2]
    exact ⟨_, rfl⟩
  · have hlen' : w < bs.length := by omega
    rw [seqLines_multi w bs hw hlen']
    have hdne : bs.drop w ≠ [] := by
      intro h
      have := congrArg List.length h
      rw [List.length_drop, List.length_nil] at this; omega
    rw [terminate_cons_ne _ _ _ _ (seqLines_ne_nil w _ hdne)]
    simp only [steps]
    have htk : bs.take w ≠ [] := by
      intro h
      have := congrArg List.length h
      rw [List.length_take, List.length_nil] at this; omega
    have htkb : ∀ b ∈ bs.take w, isBase b = true := fun b hb' => hb b (List.mem_of_mem_take hb')
    rw [step_seq st (bs.take w) eol htk htkb he hwd]
    have hl : (bs.take w).length = w := by rw [List.length_take]; omega
    simp only [hp0, hp1, hp2, List.length_append, hl, ne_eq, not_true_eq_false, false_and, if_false, if_true,
      decide_false, Bool.or_self, Nat.zero_add]
    obtain ⟨wd, hwd'⟩ := steps_seq_rest w eol fin hw he (bs.drop w)
      ⟨st.idx, ⟨st.pending.name, w, st.pending.start, w, w + eol.length⟩, st.offset + (w + eol.length), false⟩
      hdne (fun b hb' => hb b (List.mem_of_mem_drop hb')) rfl rfl rfl
    simp only at hwd'
    have e1 : w + (bs.drop w).length = bs.length := by rw [List.length_drop]; omega
    have e2 : ∀ X, st.offset + (w + eol.length) + X = st.offset + (w + eol.length + X) := by
      intro X; omega
    have e3 : (if bs.length ≤ w ∧ fin = false then 0 else eol.length) = eol.length := by
      simp [hlen]
    refine ⟨wd, ?_⟩
    rw [hwd', e1, e2, e3]
    simp only [List.flatten_cons, List.length_append, hl]

/-! ### blank lines -/

theorem steps_blanks (bl : List Bytes) (st : ScanState) (h : ∀ l ∈ bl, ∀ b ∈ l, isBlankByte b = true) :
    steps st (blankLines bl) =
      .ok ⟨st.idx, st.pending, st.offset + (blankLines bl).flatten.length,
           if bl = [] then st.wantDescLine else true⟩ := by
  induction bl generalizing st with
  | nil => simp [blankLines, steps]
  | cons l ls ih =>
    have hl : ∀ b ∈ l ++ [Hts.Spec.Fasta.LF], isSpace b = true := by
      intro b hb
      rcases List.mem_append.mp hb with hb | hb
      · exact space_of_blank (h l List.mem_cons_self b hb)
      · simp only [List.mem_singleton] at hb; rw [hb]; decide
    simp only [blankLines, List.map_cons, steps]
    rw [step_blank st _ hl]
    have := ih ⟨st.idx, st.pending, st.offset + (l ++ [Hts.Spec.Fasta.LF]).length, true⟩
      (fun l' hl' => h l' (List.mem_cons_of_mem _ hl'))
    simp only [blankLines] at this
    dsimp only
    rw [this]
    simp only [List.flatten_cons, List.length_append, Nat.add_assoc, ite_self, reduceCtorEq, if_false]

/-! ### one record -/

structure RecOK (r : Rec) (last : Bool) : Prop where
  name_ne : r.name ≠ []
  name_g : ∀ b ∈ r.name, isGraphic b = true
  desc : descOK r.desc = true
  bases : ∀ b ∈ r.bases, isBase b = true
  width : 1 ≤ r.width
  blanks : ∀ l ∈ r.blanksAfter, ∀ b ∈ l, isBlankByte b = true
  fin : r.finalNewline = true ∨ (last = true ∧ r.blanksAfter = [])

theorem recOK_of_wf {r : Rec} {last : Bool} (h : r.wf last = true) : RecOK r last := by
  simp only [Rec.wf, Bool.and_eq_true, Bool.not_eq_true', List.isEmpty_eq_false_iff, List.all_eq_true,
    decide_eq_true_eq, Bool.or_eq_true, List.isEmpty_iff] at h
  obtain ⟨⟨⟨⟨⟨⟨h1, h2⟩, h3⟩, h4⟩, h5⟩, h6⟩, h7⟩ := h
  exact ⟨h1, h2, h3, h4, h5, h6, h7⟩

theorem recOK_of_mem (recs : List Rec) (hwf : recsWf recs = true) (r : Rec) (hr : r ∈ recs) :
    ∃ last, RecOK r last := by
  induction recs with
  | nil => simp at hr
  | cons x xs ih =>
    cases xs with
    | nil =>
      simp only [List.mem_singleton] at hr
      simp only [recsWf] at hwf
      rw [hr]; exact ⟨true, recOK_of_wf hwf⟩
    | cons y ys =>
      simp only [recsWf, Bool.and_eq_true] at hwf
      rcases List.mem_cons.mp hr with rfl | hr
      · exact ⟨false, recOK_of_wf hwf.1⟩
      · exact ih hwf.2 hr

theorem eol_space (e : Eol) : ∀ b ∈ e.bytes, isSpace b = true := by
  cases e <;> decide

theorem eol_length_pos (e : Eol) : 1 ≤ e.bytes.length := by
  cases e <;> decide

theorem descTail_of_descOK (d : Option Bytes) (h : descOK d = true) : DescTail (d.getD []) := by
  cases d with
  | none => exact Or.inl rfl
  | some d =>
    cases d with
    | nil => simp [descOK] at h
    | cons s t =>
      right
      refine ⟨s, t, rfl, ?_, ?_⟩
      all_goals
        simp only [descOK, Bool.and_eq_true, Bool.or_eq_true, decide_eq_true_eq] at h
        simp only [notSpTab, isSpace, decide_eq_false_iff_not, decide_eq_true_eq]
        omega

theorem flush_snd (st : ScanState) (hp : st.pending = {} ∨ st.pending.name ≠ []) : (flush st).2 = {} := by
  unfold flush
  rcases hp with hp | hp
  · simp [hp]
  · simp [hp]

theorem steps_rec (r : Rec) (last : Bool) (h : RecOK r last) (st : ScanState)
    (hp : st.pending = {} ∨ st.pending.name ≠ []) (hdup : (flush st).1.contains r.name = false) :
    ∃ wd, steps st r.fileLines =
      .ok ⟨(flush st).1, ofEntry (r.entry st.offset), st.offset + r.render.length, wd⟩ := by
  have hfl := flush_snd st hp
  have hd := descTail_of_descOK r.desc h.desc
  have he := eol_space r.eol
  unfold Rec.render Rec.fileLines
  rw [steps_append]
  by_cases hb : r.bases = []
  · -- header only
    have hlines : r.lines = [r.headerLine] := by simp [Rec.lines, hb, seqLines_nil]
    rw [hlines]
    simp only [terminate, steps, ite_append]
    have ht : ∀ b ∈ (if r.finalNewline = true then r.eol.bytes else []), isSpace b = true := by
      cases r.finalNewline <;> simp; exact he
    have hhl : r.headerLine = GT :: (r.name ++ r.desc.getD []) := rfl
    rw [hhl, step_header st r.name (r.desc.getD []) _ h.name_ne h.name_g hd ht]
    simp only [hdup, Bool.false_eq_true, if_false, hfl]
    rw [steps_blanks _ _ h.blanks]
    refine ⟨if r.blanksAfter = [] then false else true, ?_⟩
    simp only [Rec.entry, hb, ofEntry, hhl, List.flatten_append, List.length_append, List.flatten_cons,
      List.flatten_nil, List.append_nil, List.take_nil, List.length_nil, true_and, if_true]
    have e1 : (if r.finalNewline = true then r.eol.bytes else ([] : Bytes)).length =
        (if r.finalNewline = false then 0 else r.eol.bytes.length) := by
      cases r.finalNewline <;> simp
    rw [e1]
    simp only [Nat.add_assoc, List.length_cons, List.length_append]
  · -- header and sequence lines
    have hsl := seqLines_ne_nil r.width r.bases hb
    have hlines : r.lines = r.headerLine :: seqLines r.width r.bases := rfl
    rw [hlines, terminate_cons_ne _ _ _ _ hsl]
    simp only [steps]
    have hhl : r.headerLine = GT :: (r.name ++ r.desc.getD []) := rfl
    rw [hhl, step_header st r.name (r.desc.getD []) _ h.name_ne h.name_g hd he]
    simp only [hdup, Bool.false_eq_true, if_false, hfl]
    obtain ⟨wd, hwd⟩ := steps_seq_first r.width r.eol.bytes r.finalNewline h.width he r.bases
      ⟨(flush st).1, ⟨r.name, 0, st.offset + (GT :: (r.name ++ r.desc.getD []) ++ r.eol.bytes).length, 0, 0⟩,
        st.offset + (GT :: (r.name ++ r.desc.getD []) ++ r.eol.bytes).length, false⟩
      hb h.bases rfl rfl rfl rfl
    simp only at hwd
    rw [hwd]
    simp only
    rw [steps_blanks _ _ h.blanks]
    refine ⟨if r.blanksAfter = [] then wd else true, ?_⟩
    simp only [Rec.entry, hb, ofEntry, hhl, List.flatten_append, List.length_append, List.flatten_cons,
      false_and, if_false, decide_eq_true_eq]
    simp only [Nat.add_assoc, List.length_cons, List.length_append]

/-! ### all records -/

theorem set_new (idx : Index) (r : Record) (h : idx.contains r.name = false) : idx.set r = idx ++ [r] := by
  induction idx with
  | nil => rfl
  | cons x xs ih =>
    simp only [Index.contains, List.any_cons, Bool.or_eq_false_iff] at h
    simp only [Index.set, h.1, Bool.false_eq_true, if_false, List.cons_append]
    rw [ih]
    simpa [Index.contains] using h.2

theorem contains_append (a b : Index) (n : Bytes) :
    Index.contains (a ++ b) n = (Index.contains a n || Index.contains b n) := by
  simp [Index.contains]

theorem steps_recs (recs : List Rec) :
    ∀ (st : ScanState), recsWf recs = true → namesDistinct recs = true →
      (∀ r ∈ recs, (flush st).1.contains r.name = false) →
      (st.pending = {} ∨ st.pending.name ≠ []) →
      ∃ st', steps st (recs.map Rec.fileLines).flatten = .ok st' ∧
        (flush st').1 = (flush st).1 ++ (entriesFrom st.offset recs).map ofEntry ∧
        (st'.pending = {} ∨ st'.pending.name ≠ []) := by
  induction recs with
  | nil =>
    intro st _ _ _ hp
    exact ⟨st, rfl, by simp [entriesFrom], hp⟩
  | cons r rs ih =>
    intro st hwf hdist hnew hp
    -- this record is well formed, the rest too
    have hr : ∃ last, r.wf last = true := by
      cases rs with
      | nil => exact ⟨true, by simpa [recsWf] using hwf⟩
      | cons r' rs' =>
        simp only [recsWf, Bool.and_eq_true] at hwf
        exact ⟨false, hwf.1⟩
    have hrs : recsWf rs = true := by
      cases rs with
      | nil => rfl
      | cons r' rs' =>
        simp only [recsWf, Bool.and_eq_true] at hwf
        exact hwf.2
    obtain ⟨last, hlast⟩ := hr
    have hok := recOK_of_wf hlast
    simp only [namesDistinct, Bool.and_eq_true, Bool.not_eq_true', List.any_eq_false, beq_iff_eq] at hdist
    obtain ⟨wd, h1⟩ := steps_rec r last hok st hp (hnew r List.mem_cons_self)
    simp only [List.map_cons, List.flatten_cons]
    rw [steps_append, h1]
    simp only
    -- the state after this record
    have hname : (ofEntry (r.entry st.offset)).name = r.name := rfl
    have hfl : (flush ⟨(flush st).1, ofEntry (r.entry st.offset), st.offset + r.render.length, wd⟩).1 =
        (flush st).1 ++ [ofEntry (r.entry st.offset)] := by
      unfold flush
      simp only [hname, ne_eq, hok.name_ne, not_false_eq_true, if_true]
      exact set_new _ _ (by rw [hname]; exact hnew r List.mem_cons_self)
    obtain ⟨st', h2, h3, h4⟩ := ih ⟨(flush st).1, ofEntry (r.entry st.offset), st.offset + r.render.length, wd⟩
      hrs hdist.2
      (by
        intro r' hr'
        rw [hfl, contains_append]
        simp only [Bool.or_eq_false_iff]
        refine ⟨hnew r' (List.mem_cons_of_mem _ hr'), ?_⟩
        simp only [Index.contains, List.any_cons, List.any_nil, Bool.or_false, hname, beq_eq_false_iff_ne]
        exact fun h => hdist.1 r' hr' h.symm)
      (Or.inr (by simp only [hname]; exact hok.name_ne))
    refine ⟨st', h2, ?_, h4⟩
    rw [h3, hfl]
    simp [entriesFrom]

/-! ### the lines of a well-formed file are tokens of the scanner -/

theorem mem_seqLines_aux (w : Nat) (hw : 1 ≤ w) (n : Nat) :
    ∀ (bs : Bytes), bs.length ≤ n → ∀ l ∈ seqLines w bs, l ≠ [] ∧ ∀ b ∈ l, b ∈ bs := by
  induction n with
  | zero =>
    intro bs hn l hl
    have : bs = [] := List.eq_nil_of_length_eq_zero (Nat.le_zero.mp hn)
    rw [this, seqLines_nil] at hl
    exact absurd hl (by simp)
  | succ n ih =>
    intro bs hn l hl
    by_cases hne : bs = []
    · rw [hne, seqLines_nil] at hl; exact absurd hl (by simp)
    by_cases hlen : bs.length ≤ w
    · rw [seqLines_single w bs hne hlen] at hl
      simp only [List.mem_singleton] at hl
      rw [hl]; exact ⟨hne, fun b hb => hb⟩
    · have hlen' : w < bs.length := by omega
      rw [seqLines_multi w bs hw hlen'] at hl
      rcases List.mem_cons.mp hl with rfl | hl
      · refine ⟨?_, fun b hb => List.mem_of_mem_take hb⟩
        intro h
        have := congrArg List.length h
        rw [List.length_take, List.length_nil] at this; omega
      · have := ih (bs.drop w) (by rw [List.length_drop]; omega) l hl
        exact ⟨this.1, fun b hb => List.mem_of_mem_drop (this.2 b hb)⟩

theorem mem_seqLines (w : Nat) (hw : 1 ≤ w) (bs : Bytes) :
    ∀ l ∈ seqLines w bs, l ≠ [] ∧ ∀ b ∈ l, b ∈ bs :=
  mem_seqLines_aux w hw bs.length bs (Nat.le_refl _)

theorem linesOK_of_all_term (ls : List Bytes) (h : ∀ l ∈ ls, Term l) : LinesOK ls := by
  induction ls with
  | nil => trivial
  | cons l ls ih =>
    cases ls with
    | nil => exact Or.inl (h l List.mem_cons_self)
    | cons l' ls' =>
      exact ⟨h l List.mem_cons_self, ih (fun x hx => h x (List.mem_cons_of_mem _ hx))⟩

theorem linesOK_append (a b : List Bytes) (ha : ∀ l ∈ a, Term l) (hb : LinesOK b) : LinesOK (a ++ b) := by
  induction a with
  | nil => exact hb
  | cons l ls ih =>
    have ih' := ih (fun x hx => ha x (List.mem_cons_of_mem _ hx))
    cases hls : ls ++ b with
    | nil =>
      simp only [List.cons_append, hls]
      exact Or.inl (ha l List.mem_cons_self)
    | cons x xs =>
      simp only [List.cons_append, hls]
      rw [hls] at ih'
      exact ⟨ha l List.mem_cons_self, ih'⟩

theorem term_of_eol (e : Eol) (l : Bytes) (hl : ∀ b ∈ l, notLF b = true) : Term (l ++ e.bytes) := by
  cases e with
  | lf => exact ⟨l, hl, rfl⟩
  | crlf =>
    refine ⟨l ++ [Hts.Spec.Fasta.CR], ?_, by simp [Eol.bytes]⟩
    intro b hb
    rcases List.mem_append.mp hb with hb | hb
    · exact hl b hb
    · simp only [List.mem_singleton] at hb; rw [hb]; decide

theorem terminate_true_term (e : Eol) (ls : List Bytes) (h : ∀ l ∈ ls, ∀ b ∈ l, notLF b = true) :
    ∀ l ∈ terminate e.bytes true ls, Term l := by
  induction ls with
  | nil => intro l hl; simp [terminate] at hl
  | cons x xs ih =>
    cases xs with
    | nil =>
      intro l hl
      simp only [terminate, if_true, List.mem_singleton] at hl
      rw [hl]; exact term_of_eol e x (h x List.mem_cons_self)
    | cons y ys =>
      intro l hl
      simp only [terminate, List.mem_cons] at hl
      rcases hl with rfl | hl
      · exact term_of_eol e x (h x List.mem_cons_self)
      · exact ih (fun l' hl' => h l' (List.mem_cons_of_mem _ hl')) l (by simpa [terminate] using hl)

theorem terminate_linesOK (e : Eol) (fin : Bool) (ls : List Bytes)
    (h : ∀ l ∈ ls, l ≠ [] ∧ ∀ b ∈ l, notLF b = true) : LinesOK (terminate e.bytes fin ls) := by
  induction ls with
  | nil => trivial
  | cons x xs ih =>
    cases xs with
    | nil =>
      simp only [terminate]
      cases fin with
      | true => exact Or.inl (term_of_eol e x (h x List.mem_cons_self).2)
      | false => exact Or.inr (h x List.mem_cons_self)
    | cons y ys =>
      have := ih (fun l' hl' => h l' (List.mem_cons_of_mem _ hl'))
      have hx := term_of_eol e x (h x List.mem_cons_self).2
      cases ys with
      | nil =>
        simp only [terminate] at this ⊢
        exact ⟨hx, this⟩
      | cons z zs =>
        simp only [terminate] at this ⊢
        exact ⟨hx, this⟩

theorem rec_lines_noLF (r : Rec) (last : Bool) (h : RecOK r last) :
    ∀ l ∈ r.lines, l ≠ [] ∧ ∀ b ∈ l, notLF b = true := by
  intro l hl
  simp only [Rec.lines, List.mem_cons] at hl
  rcases hl with rfl | hl
  · refine ⟨by simp [Rec.headerLine], ?_⟩
    intro b hb
    simp only [Rec.headerLine, List.mem_cons, List.mem_append] at hb
    rcases hb with rfl | hb | hb
    · decide
    · exact notLF_of_graphic (h.name_g b hb)
    · have hd := h.desc
      cases hdesc : r.desc with
      | none => rw [hdesc] at hb; simp at hb
      | some d =>
        rw [hdesc] at hb hd
        simp only [Option.getD_some] at hb
        cases d with
        | nil => simp at hb
        | cons s t =>
          simp only [descOK, Bool.and_eq_true, Bool.or_eq_true, decide_eq_true_eq, List.all_eq_true] at hd
          rcases List.mem_cons.mp hb with rfl | hb
          · simp only [notLF, decide_eq_true_eq]; omega
          · exact notLF_of_desc (hd.2 b hb)
  · have := mem_seqLines r.width h.width r.bases l hl
    exact ⟨this.1, fun b hb => notLF_of_graphic (graphic_of_base (h.bases b (this.2 b hb)))⟩

theorem blank_term (bl : List Bytes) (h : ∀ l ∈ bl, ∀ b ∈ l, isBlankByte b = true) :
    ∀ l ∈ blankLines bl, Term l := by
  intro l hl
  simp only [blankLines, List.mem_map] at hl
  obtain ⟨c, hc, rfl⟩ := hl
  exact ⟨c, fun b hb => notLF_of_blank (h c hc b hb), rfl⟩

theorem rec_fileLines_term (r : Rec) (last : Bool) (h : RecOK r last) (hfin : r.finalNewline = true) :
    ∀ l ∈ r.fileLines, Term l := by
  intro l hl
  simp only [Rec.fileLines, List.mem_append] at hl
  rcases hl with hl | hl
  · rw [hfin] at hl
    exact terminate_true_term r.eol r.lines (fun l hl => (rec_lines_noLF r last h l hl).2) l hl
  · exact blank_term _ h.blanks l hl

theorem rec_fileLines_ok (r : Rec) (last : Bool) (h : RecOK r last) : LinesOK r.fileLines := by
  unfold Rec.fileLines
  rcases h.fin with hfin | ⟨_, hbl⟩
  · exact linesOK_of_all_term _ (rec_fileLines_term r last h hfin)
  · rw [hbl]
    simp only [blankLines, List.map_nil, List.append_nil]
    exact terminate_linesOK r.eol _ r.lines (rec_lines_noLF r last h)

theorem recs_linesOK (recs : List Rec) (hwf : recsWf recs = true) :
    LinesOK (recs.map Rec.fileLines).flatten := by
  induction recs with
  | nil => trivial
  | cons r rs ih =>
    cases rs with
    | nil =>
      simp only [recsWf] at hwf
      simpa using rec_fileLines_ok r true (recOK_of_wf hwf)
    | cons r' rs' =>
      simp only [recsWf, Bool.and_eq_true] at hwf
      have hok := recOK_of_wf hwf.1
      have hfin : r.finalNewline = true := by
        rcases hok.fin with h | ⟨h, _⟩
        · exact h
        · exact absurd h (by simp)
      simp only [List.map_cons, List.flatten_cons] at ih ⊢
      exact linesOK_append _ _ (rec_fileLines_term r false hok hfin) (ih hwf.2)

theorem render_eq_lines (recs : List Rec) :
    (recs.map Rec.render).flatten = (recs.map Rec.fileLines).flatten.flatten := by
  induction recs with
  | nil => rfl
  | cons r rs ih => simp [Rec.render, ih]

theorem leading_blank {f : Hts.Spec.Fasta.File} (h : f.leadingBlanks.all (·.all isBlankByte) = true) :
    ∀ l ∈ f.leadingBlanks, ∀ b ∈ l, isBlankByte b = true := by
  simpa [List.all_eq_true] using h

/-- `NewIndex` on a well-formed file returns exactly the true entries, in file order. -/
theorem newIndex_render (f : Hts.Spec.Fasta.File) (h : f.WF) :
    newIndex f.render = .ok (f.entries.map ofEntry) := by
  obtain ⟨_, hwf, hdist, hlead⟩ := h
  have hlb := leading_blank hlead
  unfold newIndex Hts.Spec.Fasta.File.render Hts.Spec.Fasta.File.leading
  rw [render_eq_lines, ← List.flatten_append,
    scan_eq_steps _ _ (linesOK_append _ _ (blank_term _ hlb) (recs_linesOK f.recs hwf)),
    steps_append, steps_blanks _ _ hlb]
  obtain ⟨st', h1, h2, _⟩ := steps_recs f.recs
    ⟨[], {}, 0 + (blankLines f.leadingBlanks).flatten.length, if f.leadingBlanks = [] then false else true⟩ hwf hdist (by intro r _; rfl) (Or.inl rfl)
  simp only at h1 ⊢
  rw [h1]
  simp only [h2, Hts.Spec.Fasta.File.entries, Hts.Spec.Fasta.File.leading, Nat.zero_add]
  rfl

/-! ### rejected inputs: a well-formed file (every line terminated) followed by an offending line -/

theorem recs_all_term (recs : List Rec) (hwf : recsWf recs = true) (hfin : ∀ r ∈ recs, r.finalNewline = true) :
    ∀ l ∈ (recs.map Rec.fileLines).flatten, Term l := by
  induction recs with
  | nil => intro l hl; simp at hl
  | cons x xs ih =>
    have hx : ∃ last, x.wf last = true := by
      cases xs with
      | nil => exact ⟨true, by simpa [recsWf] using hwf⟩
      | cons y ys =>
        simp only [recsWf, Bool.and_eq_true] at hwf
        exact ⟨false, hwf.1⟩
    have hxs : recsWf xs = true := by
      cases xs with
      | nil => rfl
      | cons y ys =>
        simp only [recsWf, Bool.and_eq_true] at hwf
        exact hwf.2
    obtain ⟨last, hlast⟩ := hx
    intro l hl
    simp only [List.map_cons, List.flatten_cons, List.mem_append] at hl
    rcases hl with hl | hl
    · exact rec_fileLines_term x last (recOK_of_wf hlast) (hfin x List.mem_cons_self) l hl
    · exact ih hxs (fun r hr => hfin r (List.mem_cons_of_mem _ hr)) l hl

/-- the scanner state after a well-formed file all of whose lines are terminated -/
theorem scan_file_then (f : Hts.Spec.Fasta.File) (h : f.WF) (hfin : ∀ r ∈ f.recs, r.finalNewline = true)
    (rest : Bytes) :
    ∃ st', scan {} (f.render ++ rest) = scan st' rest ∧ (flush st').1 = f.entries.map ofEntry ∧
      (st'.pending = {} ∨ st'.pending.name ≠ []) := by
  obtain ⟨_, hwf, hdist, hlead⟩ := h
  have hlb := leading_blank hlead
  unfold Hts.Spec.Fasta.File.render Hts.Spec.Fasta.File.leading
  rw [render_eq_lines, ← List.flatten_append, scan_lines _ _ _ (by
    intro l hl
    rcases List.mem_append.mp hl with hl | hl
    · exact blank_term _ hlb l hl
    · exact recs_all_term f.recs hwf hfin l hl)]
  rw [steps_append, steps_blanks _ _ hlb]
  obtain ⟨st', h1, h2, h3⟩ := steps_recs f.recs
    ⟨[], {}, 0 + (blankLines f.leadingBlanks).flatten.length, if f.leadingBlanks = [] then false else true⟩ hwf hdist (by intro r _; rfl) (Or.inl rfl)
  simp only at h1 ⊢
  rw [h1]
  refine ⟨st', rfl, ?_, h3⟩
  simp only [h2, Hts.Spec.Fasta.File.entries, Hts.Spec.Fasta.File.leading, Nat.zero_add]
  rfl

/-- a following line that is `>` alone (possibly surrounded by white space) is rejected -/
theorem newIndex_nameless (f : Hts.Spec.Fasta.File) (h : f.WF) (hfin : ∀ r ∈ f.recs, r.finalNewline = true)
    (line rest : Bytes) (hl : Term line) (hb : trimSpace line = [GT]) :
    newIndex (f.render ++ (line ++ rest)) = .error .missingName := by
  obtain ⟨st', h1, _, _⟩ := scan_file_then f h hfin (line ++ rest)
  unfold newIndex
  rw [h1, scan_term st' line rest hl]
  have : step st' line = .error .missingName := by
    unfold step; simp [hb]
  rw [this]

/-- a following header that repeats the name of a record of the file is rejected -/
theorem newIndex_duplicate (f : Hts.Spec.Fasta.File) (h : f.WF) (hfin : ∀ r ∈ f.recs, r.finalNewline = true)
    (r : Rec) (hr : r ∈ f.recs) (d t rest : Bytes) (hd : DescTail d) (ht : ∀ b ∈ t, isSpace b = true)
    (hl : Term (GT :: (r.name ++ d) ++ t)) :
    newIndex (f.render ++ ((GT :: (r.name ++ d) ++ t) ++ rest)) = .error .duplicate := by
  obtain ⟨st', h1, h2, _⟩ := scan_file_then f h hfin ((GT :: (r.name ++ d) ++ t) ++ rest)
  obtain ⟨_, hwf, _, _⟩ := h
  have hrok := recOK_of_mem f.recs hwf r hr
  obtain ⟨last, hok⟩ := hrok
  unfold newIndex
  rw [h1, scan_term st' _ rest hl, step_header st' r.name d t hok.name_ne hok.name_g hd ht]
  have hc : (flush st').1.contains r.name = true := by
    rw [h2]
    simp only [Index.contains, List.any_map, List.any_eq_true]
    -- the entry of r is among the entries
    have : r.name ∈ (f.entries.map (·.name)) := by
      have hn : ∀ o (recs : List Rec), (entriesFrom o recs).map (·.name) = recs.map (·.name) := by
        intro o recs
        induction recs generalizing o with
        | nil => rfl
        | cons x xs ih => simp [entriesFrom, Rec.entry, ih]
      simp only [Hts.Spec.Fasta.File.entries, hn]
      exact List.mem_map.mpr ⟨r, hr, rfl⟩
    obtain ⟨e, he, hen⟩ := List.mem_map.mp this
    exact ⟨e, he, by simp [Function.comp, ofEntry, hen]⟩
  simp [hc]

/-- after a blank line only a header is accepted -/
theorem step_want_desc (st : ScanState) (line : Bytes) (hw : st.wantDescLine = true)
    (h1 : trimSpace line ≠ []) (h2 : (trimSpace line).head? ≠ some GT) :
    step st line = .error .shortLine := by
  unfold step
  have h3 : trimSpace line ≠ [GT] := by
    intro h; rw [h] at h2; simp at h2
  simp [h1, h2, h3, hw]

/-- a sequence line after a blank line (a blank line inside a record, or between the header and the
sequence) is rejected: fixes/C19-4 -/
theorem newIndex_blank_inside (f : Hts.Spec.Fasta.File) (h : f.WF) (hfin : ∀ r ∈ f.recs, r.finalNewline = true)
    (bl : List Bytes) (hbl : bl ≠ []) (hb : ∀ l ∈ bl, ∀ b ∈ l, isBlankByte b = true)
    (line rest : Bytes) (hl : Term line) (h1 : trimSpace line ≠ []) (h2 : (trimSpace line).head? ≠ some GT) :
    newIndex (f.render ++ ((blankLines bl).flatten ++ (line ++ rest))) = .error .shortLine := by
  obtain ⟨st', hs, _, _⟩ := scan_file_then f h hfin ((blankLines bl).flatten ++ (line ++ rest))
  unfold newIndex
  rw [hs, scan_lines st' _ _ (blank_term bl hb), steps_blanks _ _ hb]
  simp only [hbl, if_false]
  rw [scan_term _ line rest hl, step_want_desc _ line rfl h1 h2]
