/-
Lemmas about the member model (Hts.Model.Member): the exact bytes `writeBlock` produces and when it
refuses.
-/
import Hts.Model.Member
namespace Hts.Model.Member
open Hts.Model

/-! ### bytes and little-endian numbers -/

theorem toNat_ofNat_mod (n : Nat) : (UInt8.ofNat (n % 256)).toNat = n % 256 := by simp

theorem u16_le16 (n : Nat) (h : n < 65536) :
    u16 (UInt8.ofNat (n % 256)) (UInt8.ofNat (n / 256 % 256)) = n := by
  simp [u16]; omega

theorem u32_le32 (n : Nat) (h : n < 2 ^ 32) :
    u32 (UInt8.ofNat (n % 256)) (UInt8.ofNat (n / 256 % 256)) (UInt8.ofNat (n / 65536 % 256))
      (UInt8.ofNat (n / 16777216 % 256)) = n := by
  simp [u32]; omega

theorem le32_length (n : Nat) : (le32 n).length = 4 := rfl
theorem le16_length (n : Nat) : (le16 n).length = 2 := rfl

/-! ### the gzip header -/

/-- the header settings gzip.Writer accepts -/
structure HdrOK (h : Header) : Prop where
  extra_le : 6 + h.extra.length ≤ 0xffff
  name_ok : ∀ v ∈ h.name, v ≠ 0 ∧ v ≤ 255
  comment_ok : ∀ v ∈ h.comment, v ≠ 0 ∧ v ≤ 255

instance (h : Header) : Decidable (HdrOK h) :=
  if h1 : 6 + h.extra.length ≤ 0xffff ∧ (∀ v ∈ h.name, v ≠ 0 ∧ v ≤ 255) ∧ (∀ v ∈ h.comment, v ≠ 0 ∧ v ≤ 255)
  then isTrue ⟨h1.1, h1.2.1, h1.2.2⟩ else isFalse (fun k => h1 ⟨k.1, k.2, k.3⟩)

/-- a header string on the wire: nothing when empty, else its Latin-1 bytes and a NUL -/
def zbytes (s : List Nat) : List Byte := if s = [] then [] else s.map UInt8.ofNat ++ [0]

def flgOf (h : Header) : Byte := 4 + (if h.name = [] then 0 else 8) + (if h.comment = [] then 0 else 16)

/-- what follows the user's extra bytes in a member whose BSIZE field holds `bsz` -/
def afterExtra (c : CodecFns) (h : Header) (p : List Byte) : List Byte :=
  zbytes h.name ++ (zbytes h.comment ++ (c.deflate p ++ (le32 (c.crc32 p) ++ le32 (p.length % 2 ^ 32))))

/-- the member `writeBlock` produces, with `bsz` in the BSIZE field -/
def memberBytes (c : CodecFns) (h : Header) (p : List Byte) (bsz : Nat) : List Byte :=
  0x1f :: 0x8b :: 8 :: flgOf h ::
  UInt8.ofNat (h.mtime % 2 ^ 32 % 256) :: UInt8.ofNat (h.mtime % 2 ^ 32 / 256 % 256) ::
  UInt8.ofNat (h.mtime % 2 ^ 32 / 65536 % 256) :: UInt8.ofNat (h.mtime % 2 ^ 32 / 16777216 % 256) ::
  c.xfl :: h.os ::
  UInt8.ofNat ((6 + h.extra.length) % 256) :: UInt8.ofNat ((6 + h.extra.length) / 256 % 256) ::
  66 :: 67 :: 2 :: 0 :: UInt8.ofNat (bsz % 256) :: UInt8.ofNat (bsz / 256 % 256) ::
  (h.extra ++ afterExtra c h p)

/-- length of the member for header `h` and payload `p` -/
def memberLen (c : CodecFns) (h : Header) (p : List Byte) : Nat :=
  18 + h.extra.length + (zbytes h.name).length + (zbytes h.comment).length + (c.deflate p).length + 8

theorem memberBytes_length (c : CodecFns) (h : Header) (p : List Byte) (bsz : Nat) :
    (memberBytes c h p bsz).length = memberLen c h p := by
  simp [memberBytes, afterExtra, memberLen, le32]; omega

theorem latin1_eq_some (s : List Nat) : (∀ v ∈ s, v ≠ 0 ∧ v ≤ 255) → latin1 s = some (s.map UInt8.ofNat) := by
  intro h; simp only [latin1]; rw [if_pos]; simpa using h

theorem latin1_eq_none (s : List Nat) : ¬ (∀ v ∈ s, v ≠ 0 ∧ v ≤ 255) → latin1 s = none := by
  intro h; simp only [latin1]; rw [if_neg]; simpa using h

theorem gzipHeader_ok (c : CodecFns) (h : Header) (hk : HdrOK h) (p : List Byte) :
    ∃ hdr, gzipHeader c h = .ok hdr ∧ rawMember c hdr p = memberBytes c h p 0 := by
  have h1 : ¬ (bgzfExtra ++ h.extra).length > 0xffff := by
    have := hk.extra_le; simp [bgzfExtra]; omega
  have hx : (bgzfExtra ++ h.extra).length = 6 + h.extra.length := by simp [bgzfExtra]; omega
  have h1' : ¬ 65535 < 6 + h.extra.length := by have := hk.extra_le; omega
  simp only [gzipHeader, hx]
  by_cases hn : h.name = [] <;> by_cases hc : h.comment = [] <;>
    simp [hn, hc, latin1_eq_some _ hk.name_ok, latin1_eq_some _ hk.comment_ok, rawMember, memberBytes, afterExtra,
      zbytes, flgOf, le32, le16, bgzfExtra, h1']

theorem gzipHeader_bad (c : CodecFns) (h : Header) (hk : ¬ HdrOK h) : gzipHeader c h = .error .gzip := by
  simp only [gzipHeader]
  by_cases h1 : (bgzfExtra ++ h.extra).length > 0xffff
  · simp only [h1, if_true]
  · simp only [h1, if_false]
    have h1' : 6 + h.extra.length ≤ 0xffff := by simp [bgzfExtra] at h1; omega
    by_cases hn : ∀ v ∈ h.name, v ≠ 0 ∧ v ≤ 255
    · by_cases hc : ∀ v ∈ h.comment, v ≠ 0 ∧ v ≤ 255
      · exact absurd ⟨h1', hn, hc⟩ hk
      · have hcne : h.comment ≠ [] := by intro e; apply hc; simp [e]
        simp [latin1_eq_none _ hc, hcne]
    · have hnne : h.name ≠ [] := by intro e; apply hn; simp [e]
      simp [latin1_eq_none _ hn, hnne]

theorem findBC_member (c : CodecFns) (h : Header) (p : List Byte) (bsz : Nat) :
    findBC (memberBytes c h p bsz) = some 12 := by
  simp [findBC, memberBytes, indexOf, bgzfExtraPrefix, List.isPrefixOf]

theorem patch_member (c : CodecFns) (h : Header) (p : List Byte) :
    patch (memberBytes c h p 0) 12 =
      if memberLen c h p - 1 ≥ BgzfWriter.MaxBlockSize then .error .overflow
      else .ok (memberBytes c h p (memberLen c h p - 1)) := by
  simp only [patch, memberBytes_length]
  split
  · rfl
  · simp [memberBytes, List.set]

/-- `writeBlock` succeeds exactly for acceptable headers when the member is at most 64 KiB, and then
produces `memberBytes` with BSIZE = length - 1. -/
theorem writeBlock_ok (c : CodecFns) (h : Header) (p : List Byte) (hk : HdrOK h)
    (hlen : memberLen c h p ≤ BgzfWriter.MaxBlockSize) :
    writeBlock c h p = .ok (memberBytes c h p (memberLen c h p - 1)) := by
  obtain ⟨hdr, h1, h2⟩ := gzipHeader_ok c h hk p
  simp only [writeBlock, h1, h2, findBC_member, patch_member]
  rw [if_neg]
  have : 18 ≤ memberLen c h p := by simp [memberLen]; omega
  omega

theorem writeBlock_overflow (c : CodecFns) (h : Header) (p : List Byte) (hk : HdrOK h)
    (hlen : BgzfWriter.MaxBlockSize < memberLen c h p) :
    writeBlock c h p = .error .overflow := by
  obtain ⟨hdr, h1, h2⟩ := gzipHeader_ok c h hk p
  simp only [writeBlock, h1, h2, findBC_member, patch_member]
  rw [if_pos]
  omega

theorem writeBlock_gzip (c : CodecFns) (h : Header) (p : List Byte) (hk : ¬ HdrOK h) :
    writeBlock c h p = .error .gzip := by
  simp [writeBlock, gzipHeader_bad c h hk]

/-- Complete case analysis of `writeBlock`. -/
theorem writeBlock_cases (c : CodecFns) (h : Header) (p : List Byte) :
    (HdrOK h ∧ memberLen c h p ≤ BgzfWriter.MaxBlockSize ∧
        writeBlock c h p = .ok (memberBytes c h p (memberLen c h p - 1))) ∨
    (HdrOK h ∧ BgzfWriter.MaxBlockSize < memberLen c h p ∧ writeBlock c h p = .error .overflow) ∨
    (¬ HdrOK h ∧ writeBlock c h p = .error .gzip) := by
  by_cases hk : HdrOK h
  · by_cases hl : memberLen c h p ≤ BgzfWriter.MaxBlockSize
    · exact Or.inl ⟨hk, hl, writeBlock_ok c h p hk hl⟩
    · exact Or.inr (Or.inl ⟨hk, by omega, writeBlock_overflow c h p hk (by omega)⟩)
  · exact Or.inr (Or.inr ⟨hk, writeBlock_gzip c h p hk⟩)

/-! ### reader side -/

theorem takeN_cons6 (a b c d e f : Byte) (ex t : List Byte) :
    takeN (6 + ex.length) (a :: b :: c :: d :: e :: f :: (ex ++ t)) = some (a :: b :: c :: d :: e :: f :: ex, t) := by
  have : 6 + ex.length = (a :: b :: c :: d :: e :: f :: ex).length := by simp; omega
  rw [this, show a :: b :: c :: d :: e :: f :: (ex ++ t) = (a :: b :: c :: d :: e :: f :: ex) ++ t by simp]
  simp [takeN]

theorem takeN_append (a t : List Byte) : takeN a.length (a ++ t) = some (a, t) := by simp [takeN]

theorem readCString_append (fuel : Nat) (bs t : List Byte) (h : ∀ b ∈ bs, b ≠ 0) (hf : bs.length < fuel) :
    readCString fuel (bs ++ 0 :: t) = some (bs, t) := by
  induction bs generalizing fuel with
  | nil =>
    cases fuel with
    | zero => simp at hf
    | succ f => simp [readCString]
  | cons b bs ih =>
    cases fuel with
    | zero => simp at hf
    | succ f =>
      have hb : b ≠ 0 := h b (by simp)
      simp [readCString, hb, ih f (fun x hx => h x (by simp [hx])) (by simpa using hf)]

theorem ofNat_ne_zero (v : Nat) (h : v ≠ 0 ∧ v ≤ 255) : UInt8.ofNat v ≠ 0 := by
  intro e
  have := congrArg UInt8.toNat e
  simp at this; omega

/-- header strings the gzip reader accepts (its string buffer holds 512 bytes including the NUL) -/
def ReaderOK (h : Header) : Prop := h.name.length ≤ 511 ∧ h.comment.length ≤ 511

theorem flg_and :
    ((4 : UInt8) &&& 8 = 0) ∧ ((4 : UInt8) &&& 16 = 0) ∧ ((4 : UInt8) &&& 2 = 0) ∧
    ((12 : UInt8) &&& 8 = 8) ∧ ((12 : UInt8) &&& 16 = 0) ∧ ((12 : UInt8) &&& 2 = 0) ∧
    ((20 : UInt8) &&& 8 = 0) ∧ ((20 : UInt8) &&& 16 = 16) ∧ ((20 : UInt8) &&& 2 = 0) ∧
    ((28 : UInt8) &&& 8 = 8) ∧ ((28 : UInt8) &&& 16 = 16) ∧ ((28 : UInt8) &&& 2 = 0) ∧
    ((12 : UInt8) &&& 4 = 4) ∧ ((20 : UInt8) &&& 4 = 4) ∧ ((28 : UInt8) &&& 4 = 4) := by decide

theorem readHeader_member (c : CodecFns) (h : Header) (p : List Byte) (bsz : Nat) (rest : List Byte)
    (hk : HdrOK h) (hr : ReaderOK h) :
    readHeader c (memberBytes c h p bsz ++ rest) =
      some (66 :: 67 :: 2 :: 0 :: UInt8.ofNat (bsz % 256) :: UInt8.ofNat (bsz / 256 % 256) :: h.extra,
        c.deflate p ++ (le32 (c.crc32 p) ++ (le32 (p.length % 2 ^ 32) ++ rest))) := by
  have hx : 6 + h.extra.length < 65536 := by have := hk.extra_le; omega
  have hname : ∀ b ∈ h.name.map UInt8.ofNat, b ≠ 0 := by
    intro b hb; simp at hb; obtain ⟨v, hv, rfl⟩ := hb; exact ofNat_ne_zero v (hk.name_ok v hv)
  have hcomm : ∀ b ∈ h.comment.map UInt8.ofNat, b ≠ 0 := by
    intro b hb; simp at hb; obtain ⟨v, hv, rfl⟩ := hb; exact ofNat_ne_zero v (hk.comment_ok v hv)
  have hnl : (h.name.map UInt8.ofNat).length < 512 := by have := hr.1; simp; omega
  have hcl : (h.comment.map UInt8.ofNat).length < 512 := by have := hr.2; simp; omega
  by_cases hn : h.name = [] <;> by_cases hc : h.comment = []
  all_goals
    simp [memberBytes, afterExtra, zbytes, flgOf, hn, hc, readHeader, u16_le16 _ hx, takeN_cons6,
      readCString_append 512 _ _ hname hnl, readCString_append 512 _ _ hcomm hcl, flg_and]

theorem expectedMemberSize_bc (bsz : Nat) (hb : bsz < 65536) (ex : List Byte) :
    expectedMemberSize (66 :: 67 :: 2 :: 0 :: UInt8.ofNat (bsz % 256) :: UInt8.ofNat (bsz / 256 % 256) :: ex) = some (bsz + 1) := by
  simp [expectedMemberSize, indexOf, bgzfExtraPrefix, List.isPrefixOf, u16_le16 _ hb]

theorem memberLen_eq (c : CodecFns) (h : Header) (p : List Byte) (bsz : Nat) (rest : List Byte) :
    (memberBytes c h p bsz ++ rest).length - (c.deflate p ++ (le32 (c.crc32 p) ++ (le32 (p.length % 2 ^ 32) ++ rest))).length
      = memberLen c h p - ((c.deflate p).length + 8) := by
  simp only [List.length_append, memberBytes_length, le32_length]
  simp [memberLen]; omega

/-- The reader decodes a member the writer produced to its payload and is then positioned at the next
member. -/
theorem readMember_member (c : Codec) (h : Header) (p : List Byte) (rest : List Byte)
    (hk : HdrOK h) (hr : ReaderOK h) (hlen : memberLen c.toCodecFns h p ≤ BgzfWriter.MaxBlockSize)
    (hp : p.length ≤ BgzfWriter.MaxBlockSize) :
    readMember c.toCodecFns (memberBytes c.toCodecFns h p (memberLen c.toCodecFns h p - 1) ++ rest) = some (p, rest) := by
  have h18 : 18 ≤ memberLen c.toCodecFns h p := by simp [memberLen]; omega
  have hb : memberLen c.toCodecFns h p - 1 < 65536 := by simp [BgzfWriter.MaxBlockSize] at hlen; omega
  have hcrc := c.crc32_lt p
  have hisz : p.length % 2 ^ 32 < 2 ^ 32 := Nat.mod_lt _ (by decide)
  have hneed : memberLen c.toCodecFns h p - 1 + 1 - (memberLen c.toCodecFns h p - ((c.deflate p).length + 8))
      = (c.deflate p ++ (le32 (c.crc32 p) ++ le32 (p.length % 2 ^ 32))).length := by
    simp [le32_length, memberLen]; omega
  have hlt : ¬ (memberLen c.toCodecFns h p - 1 + 1 ≤ memberLen c.toCodecFns h p - ((c.deflate p).length + 8)) := by
    simp [memberLen]; omega
  simp only [readMember, readHeader_member c.toCodecFns h p _ rest hk hr, expectedMemberSize_bc _ hb, memberLen_eq, hlt,
    if_false, hneed]
  rw [show c.deflate p ++ (le32 (c.crc32 p) ++ (le32 (p.length % 2 ^ 32) ++ rest))
      = (c.deflate p ++ (le32 (c.crc32 p) ++ le32 (p.length % 2 ^ 32))) ++ rest by simp, takeN_append]
  simp only [c.inflate_deflate, List.drop_left]
  simp [le32, u32_le32 _ hcrc, hp]
  simp [u32]; omega

theorem readMember_magic (c : Codec) (rest : List Byte) :
    readMember c.toCodecFns (magicBlock ++ rest) = some ([], rest) := by
  simp [magicBlock, readMember, readHeader, flg_and, u16, takeN, expectedMemberSize, indexOf, bgzfExtraPrefix,
    List.isPrefixOf, c.inflate_marker, c.crc32_nil, u32, BgzfWriter.MaxBlockSize]

end Hts.Model.Member
