/-
Writer LTS: every compressor has at most one holder (the API goroutine's active compressor, the `waiting`
channel, the `queue` channel, or the emitter) in every reachable state of either protocol variant — so the block
buffer and the gzip buffer of a compressor are never touched by two goroutines.
-/
import Hts.Lemmas.WriterLTSInv
namespace Hts.Model.WriterLTS

variable {cfg : Cfg} {s t : State} {e : Option Ev}

def emCid : EmPc → List Nat
  | .hold it => [it.cid]
  | .failed it => [it.cid]
  | .latch it => [it.cid]
  | .rel it => [it.cid]
  | .push it => [it.cid]
  | .pushx it => [it.cid]
  | _ => []

/-- number of holders of compressor `c` -/
def holders (c : Nat) (s : State) : Nat :=
  s.active.toList.count c + s.waiting.count c + (s.queue.map (·.cid)).count c + (emCid s.em).count c

theorem unhold_cid (it : Item) : (unhold it).cid = it.cid := by
  unfold unhold; split <;> rfl

theorem emCid_unhold (em : EmPc) : emCid (unholdEm em) = emCid em := by
  cases em <;> simp [unholdEm, emCid, unhold_cid]

theorem map_cid_unhold (q : List Item) : (q.map unhold).map (·.cid) = q.map (·.cid) := by
  simp [List.map_map, Function.comp_def, unhold_cid]

theorem finishAt_cid : ∀ {i : Nat} {q q' : List Item}, finishAt i q = some q' → q'.map (·.cid) = q.map (·.cid)
  | _, [], _, h => by simp [finishAt] at h
  | 0, it :: q, q', h => by
    simp only [finishAt] at h
    split at h
    · cases h; rfl
    · cases h
  | i + 1, it :: q, q', h => by
    simp only [finishAt, Option.map_eq_some_iff] at h
    obtain ⟨q1, h1, rfl⟩ := h
    simp [finishAt_cid h1]

theorem api_holders (c : Nat) (h : apiStep cfg s = some (e, t)) : holders c t ≤ holders c s := by
  unfold apiStep at h
  step_cases h
  all_goals simp only [holders, *, Option.toList_some, Option.toList_none, List.map_append, List.map_cons,
    List.map_nil, List.count_append, List.count_cons, List.count_nil, emCid_unhold, map_cid_unhold]
  all_goals omega

theorem em_holders (c : Nat) (h : emStep cfg s = some (e, t)) : holders c t ≤ holders c s := by
  unfold emStep at h
  step_cases h
  all_goals simp only [holders, *, emCid, List.map_cons, List.count_append, List.count_cons, List.count_nil]
  all_goals omega

theorem next_holders (c : Nat) {l : Label} (h : next cfg s l = some (e, t)) : holders c t ≤ holders c s := by
  refine next_cases h (api_holders c) (em_holders c) ?_ ?_
  · intro i q hq _ ht
    rw [ht]; simp only [holders, finishAt_cid hq]; exact Nat.le_refl _
  · intro it hem _ _ ht
    rw [ht]; simp only [holders, hem, emCid]; exact Nat.le_refl _

theorem init_holders (cfg : Cfg) (c : Nat) : holders c (init cfg) ≤ 1 := by
  have hnd : (0 :: List.range' 1 (cfg.n - 1)).Nodup := by
    have := List.nodup_range' (s := 0) (n := cfg.n) 1
    have hn := cfg.n_ge_two
    have he : List.range' 0 cfg.n = 0 :: List.range' 1 (cfg.n - 1) := by
      have : cfg.n = (cfg.n - 1) + 1 := by omega
      rw [this, List.range'_succ]; simp
    rw [he] at this; exact this
  have := hnd.count (a := c)
  simp only [holders, init, Option.toList_some, List.map_nil, List.count_nil, emCid, Nat.add_zero]
  have h2 : (0 :: List.range' 1 (cfg.n - 1)).count c = [0].count c + (List.range' 1 (cfg.n - 1)).count c := by
    rw [← List.count_append]; rfl
  rw [← h2, this]
  split <;> omega

theorem reachable_holders (h : Reachable cfg s) (c : Nat) : holders c s ≤ 1 := by
  induction h with
  | init => exact init_holders cfg c
  | step _ hst ih =>
    obtain ⟨l, e, hn⟩ := hst
    exact Nat.le_trans (next_holders c hn) ih

end Hts.Model.WriterLTS
