/-
C07 helper lemmas, part 9: the observable item lists of a header, under the invariant.
-/
import Hts.Lemmas.HeaderLinks
namespace Hts.Model.Header
variable {α : Type}

theorem filterMap_get {β γ : Type} (f : β → Option γ) : ∀ (l : List β) (i : Nat),
    (∀ a ∈ l, (f a).isSome = true) → (l.filterMap f)[i]? = (l[i]?).bind f := by
  intro l
  induction l with
  | nil => intro i _; simp
  | cons a l ih =>
    intro i h
    have ha := h a List.mem_cons_self
    cases hfa : f a with
    | none => simp [hfa] at ha
    | some b =>
      simp only [List.filterMap_cons, hfa]
      cases i with
      | zero => simp [hfa]
      | succ i => simpa using ih i (fun a' ha' => h a' (List.mem_cons_of_mem _ ha'))

/-- one kind's table of header `h` exists and is consistent -/
def KindInv (k : KW α) (h : Nat) : Prop := ∃ t, k.tabs[h]? = some t ∧ TabInv k.heap h t

theorem items_get {k : KW α} {h : Nat} {t : Tab} (ht : k.tabs[h]? = some t) (T : TabInv k.heap h t) (i : Nat)
    (e : Int × Bytes × α) :
    (items k h)[i]? = some e ↔ ∃ (o : Nat) (x : Obj α), t.items[i]? = some o ∧ k.heap[o]? = some x ∧
      e = (x.id, x.name, x.dat) := by
  unfold items
  simp only [ht]
  rw [filterMap_get]
  · constructor
    · intro hb
      cases hi : t.items[i]? with
      | none => simp [hi] at hb
      | some o =>
        simp only [hi, Option.bind_some] at hb
        cases hx : k.heap[o]? with
        | none => simp [hx] at hb
        | some x => simp [hx] at hb; exact ⟨o, x, rfl, hx, hb.symm⟩
    · rintro ⟨o, x, hi, hx, rfl⟩
      simp [hi, hx]
  · intro o ho
    obtain ⟨j, hj⟩ := List.mem_iff_getElem?.1 ho
    obtain ⟨x, hx, _⟩ := T.own j o hj
    simp [hx]


theorem parseLine_hdrs_len (E : Ext) (w : World) (h : Nat) (l : Bytes) :
    (parseLine E w h l).1.hdrs.length = w.hdrs.length := by
  unfold parseLine
  repeat' split
  all_goals simp [setHdr]

theorem parseLines_hdrs_len (E : Ext) (h : Nat) : ∀ (ls : List Bytes) (w : World),
    (parseLines E w h ls).1.hdrs.length = w.hdrs.length := by
  intro ls
  induction ls with
  | nil => intro w; rfl
  | cons l ls ih =>
    intro w
    rw [parseLines]
    split
    · exact ih w
    · have := parseLine_hdrs_len E w h (dropCR l)
      generalize parseLine E w h (dropCR l) = res at this
      obtain ⟨w', r⟩ := res
      cases r
      case ok => dsimp only; rw [ih w']; exact this
      all_goals exact this

theorem markDead_hdrs_len (w : World) (h : Nat) : (markDead w h).hdrs.length = w.hdrs.length := by
  unfold markDead; split <;> simp [setHdr]

theorem newHeader_hdrs_len (E : Ext) (w : World) (text : Bytes) (refs : List Nat) :
    (newHeader E w text refs).1.hdrs.length = w.hdrs.length + 1 := by
  unfold newHeader
  dsimp only
  split
  · rw [markDead_hdrs_len]; simp [pushHeader]
  · have := parseLines_hdrs_len E w.hdrs.length (splitOn 10 text)
      { pushHeader w {} with refs := refs.foldl (fun k o => k.addNewU w.hdrs.length o) (pushHeader w {}).refs }
    unfold unmarshalText
    generalize parseLines E _ w.hdrs.length (splitOn 10 text) = res at this
    obtain ⟨w', r⟩ := res
    cases r <;> simp only [markDead_hdrs_len] <;> simpa [pushHeader] using this

end Hts.Model.Header
