/-
The header hypothesis of C05's file theorems, discharged from C07's model: for every header of a consistent C07 world
that is API-built with canonical URIs and whose sizes fit the int32 fields, the bytes `MarshalBinary(h)` and the decoder
built from C07's `decodeBinaryR` satisfy `HeaderFramed`.  Byte bridge: C07 models bytes as naturals (`List Nat`), C05 as
`BitVec 8`; `toNats`/`ofNats` convert; the only extra condition is that every element of the marshalled header IS a byte
(`< 256`), which C07's model (strings as lists of unbounded naturals) cannot derive by itself.
-/
import Hts.Lemmas.BamStream
import Hts.Lemmas.BamOverBgzf
import Hts.Lemmas.HeaderFrame
namespace Hts.Model.Bam
open Hts.Model.Header (World View Ext ApiBuilt UriCanon WInv view marshalBinary marshalText decodeBinaryR pushHeader)

def toNats (bs : List Byte) : List Nat := bs.map BitVec.toNat
def ofNats (ns : List Nat) : List Byte := ns.map (BitVec.ofNat 8)

theorem ofNats_toNats (bs : List Byte) : ofNats (toNats bs) = bs := by
  induction bs with
  | nil => rfl
  | cons b bs ih =>
    simp only [toNats, ofNats, List.map_cons, List.map_map] at ih ⊢
    rw [ih]; simp

theorem toNats_ofNats (ns : List Nat) (h : ∀ n ∈ ns, n < 256) : toNats (ofNats ns) = ns := by
  induction ns with
  | nil => rfl
  | cons n ns ih =>
    have hn := h n (by simp)
    have ih' := ih (fun m hm => h m (by simp [hm]))
    simp only [toNats, ofNats, List.map_cons, List.map_map] at ih' ⊢
    rw [ih']
    simp only [Function.comp, BitVec.toNat_ofNat]
    congr 1
    omega

theorem toNats_append (a b : List Byte) : toNats (a ++ b) = toNats a ++ toNats b := by
  simp [toNats]

/-- `bam.NewReader`'s header step on C05's bytes, through C07's `decodeBinaryR` (a fresh header pushed onto world `w`):
the values the decoded header exposes, and the unread bytes -/
def hdrOut (n : Nat) : World × Hts.Model.Header.Res × List Nat → Option (View × List Byte)
  | (w', .ok, rest) => some (view w' n, ofNats rest)
  | _ => none

def hdrDecoder (E : Ext) (w : World) (bs : List Byte) : Option (View × List Byte) :=
  hdrOut w.hdrs.length (decodeBinaryR E (pushHeader w {}) w.hdrs.length (toNats bs))

/-- the number of references `Ref`/`MateRef` ids index into -/
def viewRefs (v : View) : Nat := v.refs.length

/-- HeaderFramed from C07: for a header of a consistent world that is API-built with canonical URIs, whose sizes fit the
int32 fields and whose marshalled form consists of bytes, `MarshalBinary(h)` followed by any data is decoded into a
header exposing the same values, leaving exactly the data -/
theorem headerFramed_of_C07 (E : Ext) (w : World) (hw : WInv w) (h : Nat) (hh : h < w.hdrs.length)
    (api : ApiBuilt E (view w h)) (uc : UriCanon E (view w h))
    (hs1 : ((marshalText w h).length : Int) < 2147483648) (hs2 : ((view w h).refs.length : Int) < 2147483648)
    (hs3 : ∀ r ∈ (view w h).refs, (r.2.1.length : Int) + 1 < 2147483648)
    (hbytes : ∀ b ∈ marshalBinary w h, b < 256) :
    HeaderFramed (hdrDecoder E w) (ofNats (marshalBinary w h)) (view w h) := by
  intro rest
  obtain ⟨w', hd, _, hv⟩ := Hts.Model.Header.decodeBinaryR_frame E w hw h hh api uc hs1 hs2 hs3 (toNats rest)
  have hin : toNats (ofNats (marshalBinary w h) ++ rest) = marshalBinary w h ++ toNats rest := by
    rw [toNats_append, toNats_ofNats _ hbytes]
  show hdrOut w.hdrs.length (decodeBinaryR E (pushHeader w {}) w.hdrs.length
    (toNats (ofNats (marshalBinary w h) ++ rest))) = some (view w h, rest)
  rw [hin, hd]
  show some (view w' w.hdrs.length, ofNats (toNats rest)) = some (view w h, rest)
  rw [hv, ofNats_toNats]

/-- the whole file with a C07 header: NO header hypothesis other than C07's (consistent world, API-built, canonical
URIs, sizes) and "the marshalled header consists of bytes" -/
theorem readFile_writeFile_C07 (E : Ext) (w : World) (hw : WInv w) (h : Nat) (hh : h < w.hdrs.length)
    (api : ApiBuilt E (view w h)) (uc : UriCanon E (view w h))
    (hs1 : ((marshalText w h).length : Int) < 2147483648) (hs2 : ((view w h).refs.length : Int) < 2147483648)
    (hs3 : ∀ r ∈ (view w h).refs, (r.2.1.length : Int) + 1 < 2147483648)
    (hbytes : ∀ b ∈ marshalBinary w h, b < 256)
    (om : Omit) (rs : List Record) (hwf : ∀ r ∈ rs, WF (viewRefs (view w h)) r) :
    ∃ bytes, writeFile (ofNats (marshalBinary w h)) rs = .ok bytes ∧
      readFile (hdrDecoder E w) viewRefs om bytes = some (view w h, rs.map (expected om), none) :=
  readFile_writeFile (hdrDecoder E w) viewRefs _ _
    (headerFramed_of_C07 E w hw h hh api uc hs1 hs2 hs3 hbytes) om rs hwf

open Hts.Model Hts.Model.BgzfWriter Hts.Model.Member in
/-- ... and under BGZF with C01's models: the BGZF reader's decoded blocks, handed to the BAM reader (header step from
C07's model, then the record loop), give the header's values, the records in order and io.EOF -/
theorem bam_over_bgzf_C07 (c : Codec) (hb : Bounded c.toCodecFns)
    (E : Ext) (w : World) (hw : WInv w) (h : Nat) (hh : h < w.hdrs.length)
    (api : ApiBuilt E (view w h)) (uc : UriCanon E (view w h))
    (hs1 : ((marshalText w h).length : Int) < 2147483648) (hs2 : ((view w h).refs.length : Int) < 2147483648)
    (hs3 : ∀ r ∈ (view w h).refs, (r.2.1.length : Int) + 1 < 2147483648)
    (hbytes : ∀ b ∈ marshalBinary w h, b < 256)
    (om : Omit) (rs : List Record) (hwf : ∀ r ∈ rs, WF (viewRefs (view w h)) r) :
    ∃ fs, frames rs = .ok fs ∧
      (closeOutput c.toCodecFns {} (after (bamScript (ofNats (marshalBinary w h)) fs)).emitted).2 = none ∧
      ∃ blocks, readStream c.toCodecFns
          (closeOutput c.toCodecFns {} (after (bamScript (ofNats (marshalBinary w h)) fs)).emitted).1 = some blocks ∧
        readFile (hdrDecoder E w) viewRefs om (blocks.flatten.map ofU8)
          = some (view w h, rs.map (expected om), none) := by
  obtain ⟨fs, s, hfs, hs, hok, blocks, hrd, hbytes', _⟩ :=
    bam_over_bgzf c hb (ofNats (marshalBinary w h)) om rs hwf
  obtain ⟨s', hs', hr⟩ := readAll_encodeAll om rs hwf
  have hss : s' = s := by rw [hs] at hs'; exact (Except.ok.inj hs').symm
  subst hss
  refine ⟨fs, hfs, hok, blocks, hrd, ?_⟩
  have hf := headerFramed_of_C07 E w hw h hh api uc hs1 hs2 hs3 hbytes s'
  simp only [readFile, hbytes', hf, hr]

/-- a record representable under a header stays representable under a header with more references -/
theorem WF.mono {n m : Nat} {r : Record} (h : WF n r) (hnm : n ≤ m) (hm : m < 2147483648) : WF m r :=
  { h with nrefs_ok := hm
           ref_ok := fun i hi => Nat.lt_of_lt_of_le (h.ref_ok i hi) hnm
           mate_ok := fun i hi => Nat.lt_of_lt_of_le (h.mate_ok i hi) hnm }

end Hts.Model.Bam
