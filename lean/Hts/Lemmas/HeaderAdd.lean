/-
C07 helper lemmas, part 2: the invariant is kept by Add* (new name, duplicate name, replacement).
-/
import Hts.Lemmas.HeaderBase
namespace Hts.Model.Header
variable {α : Type}

theorem kinv_addNewU {k : KW α} (hk : KInv k) {h o : Nat} {x : Obj α} {t : Tab}
    (hx : k.heap[o]? = some x) (ht : k.tabs[h]? = some t) (hfree : x.owner = none)
    (hnew : lookup t.seen x.name = none) : KInv (k.addNewU h o) := by
  have hnot : ∀ (h' : Nat) (t' : Tab) (i : Nat), k.tabs[h']? = some t' → t'.items[i]? ≠ some o :=
    fun h' t' i ht' => hk.free_unlisted hx hfree ht'
  simp only [KW.addNewU, hx, ht]
  have T := hk.tab h t ht
  constructor
  · intro h' t' ht'
    simp only [set_get _ _ _ _ _ ht] at ht'
    by_cases hh : h = h'
    · subst hh; simp only [if_true] at ht'; cases ht'
      constructor
      · intro i o' hi
        simp only [set_get _ _ _ _ _ hx]
        rw [snoc_get] at hi
        split at hi
        · obtain ⟨x', hx', ho, hid⟩ := T.own i o' hi
          have : o ≠ o' := fun e => hnot h t i ht (e ▸ hi)
          simp only [this, if_false]; exact ⟨x', hx', ho, hid⟩
        · split at hi
          · cases hi; subst_vars; simp
          · cases hi
      · intro i o' x' hi hx'
        simp only [set_get _ _ _ _ _ hx] at hx'
        simp only [lookup_insert]
        rw [snoc_get] at hi
        split at hi
        · have hne : o ≠ o' := fun e => hnot h t i ht (e ▸ hi)
          simp only [hne, if_false] at hx'
          have hkn := T.known i o' x' hi hx'
          have : x.name ≠ x'.name := fun e => by rw [← e, hnew] at hkn; cases hkn
          simp only [this, if_false]; exact hkn
        · split at hi
          · cases hi; subst_vars; simp at hx'; subst hx'; simp
          · cases hi
      · intro n v hv
        simp only [lookup_insert] at hv
        simp only [set_get _ _ _ _ _ hx]
        by_cases hn : x.name = n
        · simp only [hn, if_true] at hv; cases hv
          exact ⟨t.items.length, o, _, by simp, if_pos rfl, hn, rfl⟩
        · simp only [hn, if_false] at hv
          obtain ⟨i, o', x', hi, hx', hn', hv'⟩ := T.only n v hv
          have hne : o ≠ o' := fun e => hnot h t i ht (e ▸ hi)
          refine ⟨i, o', x', ?_, by simp only [hne, if_false]; exact hx', hn', hv'⟩
          rw [snoc_get]; simp only [get_lt hi, if_true]; exact hi
    · simp only [hh, if_false] at ht'
      refine (hk.tab h' t' ht').frame _ ?_
      intro i o' hi
      have : o ≠ o' := fun e => hnot h' t' i ht' (e ▸ hi)
      simp only [set_get _ _ _ _ _ hx, this, if_false]
  · intro o' x' h' hx' ho'
    simp only [set_get _ _ _ _ _ hx] at hx'
    simp only [set_get _ _ _ _ _ ht]
    by_cases hne : o = o'
    · subst hne; simp only [if_true] at hx'; cases hx'
      simp only at ho'; cases ho'
      exact ⟨_, t.items.length, if_pos rfl, rfl, by simp⟩
    · simp only [hne, if_false] at hx'
      obtain ⟨t', i, ht', hid, hi⟩ := hk.obj o' x' h' hx' ho'
      by_cases hh : h = h'
      · subst hh; rw [ht] at ht'; cases ht'
        refine ⟨_, i, if_pos rfl, hid, ?_⟩
        simp only [snoc_get, get_lt hi, if_true]; exact hi
      · exact ⟨t', i, by simp only [hh, if_false]; exact ht', hid, hi⟩

theorem kinv_addNew {k : KW α} (hk : KInv k) {h o : Nat} {t : Tab} (ht : k.tabs[h]? = some t)
    (hnew : ∀ x, k.heap[o]? = some x → lookup t.seen x.name = none) : KInv (k.addNew h o).1 := by
  unfold KW.addNew
  split
  · next x hx =>
    split
    · exact hk
    · next hc =>
      have : x.owner = none := by
        cases ho : x.owner with
        | none => rfl
        | some _ => simp [ho] at hc
      exact kinv_addNewU hk hx ht this (hnew x hx)
  · exact hk

theorem kinv_addUniq {k : KW α} (hk : KInv k) (h o : Nat) : KInv (k.addUniq h o).1 := by
  unfold KW.addUniq
  split
  · next x t hx ht =>
    split
    · exact hk
    · next hc =>
      refine kinv_addNew hk ht ?_
      intro x' hx'; rw [hx] at hx'; cases hx'
      cases hl : lookup t.seen x.name with
      | none => rfl
      | some _ => simp [hl] at hc
  · exact hk

/-- the replacement of a listed object by a free one of the same name -/
theorem kinv_replace {k : KW α} (hk : KInv k) {h eo o i : Nat} {r er : Obj α} {t : Tab} (d : α)
    (ht : k.tabs[h]? = some t) (hi : t.items[i]? = some eo) (hr : k.heap[o]? = some r)
    (her : k.heap[eo]? = some er) (hfree : r.owner = none) (hname : r.name = er.name) :
    KInv (k.replace h (i : Int) eo o d) := by
  have T := hk.tab h t ht
  have hne : o ≠ eo := fun e => hk.free_unlisted hr hfree ht (e ▸ hi)
  have hnot : ∀ (h' : Nat) (t' : Tab) (j : Nat), k.tabs[h']? = some t' → t'.items[j]? ≠ some o :=
    fun h' t' j ht' => hk.free_unlisted hr hfree ht'
  have her1 : (k.heap.set o { r with owner := some h, id := (i : Int), dat := d })[eo]? = some er := by
    rw [set_get _ _ _ _ _ hr]; simp only [hne, if_false]; exact her
  have hget : ∀ q, ((k.heap.set o { r with owner := some h, id := (i : Int), dat := d }).set eo
      { er with owner := none, id := -1 })[q]? =
      if eo = q then some { er with owner := none, id := -1 }
      else if o = q then some { r with owner := some h, id := (i : Int), dat := d } else k.heap[q]? := by
    intro q
    rw [set_get _ _ _ _ _ her1, set_get _ _ _ _ _ hr]
  have ho_er := (T.listed hi her)
  simp only [KW.replace, hr, her, ht, Int.toNat_natCast]
  constructor
  · intro h' t' ht'
    simp only [set_get _ _ _ _ _ ht] at ht'
    by_cases hh : h = h'
    · subst hh; simp only [if_true] at ht'; cases ht'
      constructor
      · intro j o' hj
        simp only [hget]
        simp only [set_get _ _ _ _ _ hi] at hj
        by_cases hij : i = j
        · subst hij; simp only [if_true] at hj; cases hj
          simp only [hne.symm, if_false, if_true]; exact ⟨_, rfl, rfl, rfl⟩
        · simp only [hij, if_false] at hj
          have h1 : eo ≠ o' := fun e => hij (T.inj hi (e ▸ hj))
          have h2 : o ≠ o' := fun e => hnot h t j ht (e ▸ hj)
          simp only [h1, h2, if_false]; exact T.own j o' hj
      · intro j o' x' hj hx'
        simp only [hget] at hx'
        simp only [set_get _ _ _ _ _ hi] at hj
        by_cases hij : i = j
        · subst hij; simp only [if_true] at hj; cases hj
          simp only [hne.symm, if_false, if_true] at hx'; cases hx'
          simp only; rw [hname]; exact T.known i eo er hi her
        · simp only [hij, if_false] at hj
          have h1 : eo ≠ o' := fun e => hij (T.inj hi (e ▸ hj))
          have h2 : o ≠ o' := fun e => hnot h t j ht (e ▸ hj)
          simp only [h1, h2, if_false] at hx'; exact T.known j o' x' hj hx'
      · intro n v hv
        obtain ⟨j, o', x', hj, hx', hn, hv'⟩ := T.only n v hv
        by_cases hij : i = j
        · subst hij; rw [hi] at hj; cases hj; rw [her] at hx'; cases hx'
          refine ⟨i, o, { r with owner := some h, id := (i : Int), dat := d }, by simp [set_get _ _ _ _ _ hi], by simp only [hget, hne.symm, if_false, if_true], ?_, hv'⟩
          simp only; rw [hname]; exact hn
        · have h1 : eo ≠ o' := fun e => hij (T.inj hi (e ▸ hj))
          have h2 : o ≠ o' := fun e => hnot h t j ht (e ▸ hj)
          refine ⟨j, o', x', by simp only [set_get _ _ _ _ _ hi, hij, if_false]; exact hj,
            by simp only [hget, h1, h2, if_false]; exact hx', hn, hv'⟩
    · simp only [hh, if_false] at ht'
      refine (hk.tab h' t' ht').frame _ ?_
      intro j o' hj
      have h2 : o ≠ o' := fun e => hnot h' t' j ht' (e ▸ hj)
      have h1 : eo ≠ o' := fun e => hh (hk.listed_owner her ho_er.1 ht' (e ▸ hj)).symm
      simp only [hget, h1, h2, if_false]
  · intro q y h' hy hown
    simp only [hget] at hy
    simp only [set_get _ _ _ _ _ ht]
    by_cases h1 : eo = q
    · subst h1; simp only [if_true] at hy; cases hy; cases hown
    · simp only [h1, if_false] at hy
      by_cases h2 : o = q
      · subst h2; simp only [if_true] at hy; cases hy
        simp only at hown; cases hown
        exact ⟨_, i, if_pos rfl, rfl, by simp [set_get _ _ _ _ _ hi]⟩
      · simp only [h2, if_false] at hy
        obtain ⟨t', j, ht', hid, hj⟩ := hk.obj q y h' hy hown
        by_cases hh : h = h'
        · subst hh; rw [ht] at ht'; cases ht'
          have hij : i ≠ j := fun e => by subst e; rw [hi] at hj; cases hj; exact h1 rfl
          exact ⟨_, j, if_pos rfl, hid, by simp only [set_get _ _ _ _ _ hi, hij, if_false]; exact hj⟩
        · exact ⟨t', j, by simp only [hh, if_false]; exact ht', hid, hj⟩

theorem kinv_addReference {k : KW RefD} (hk : KInv k) (h o : Nat) : KInv (addReference k h o).1 := by
  unfold addReference
  split
  · next r t hr ht =>
    have T := hk.tab h t ht
    split
    · next dupID hl =>
      split
      · exact hk
      · next eo he =>
        split
        · exact hk
        · next er her =>
          split
          · exact hk
          · split
            · exact hk
            · split
              · exact hk
              · next hown =>
                obtain ⟨i, er', hv, hi, her', hn, _⟩ := T.lookup_item hl he
                rw [her] at her'; cases her'
                subst hv
                have : r.owner = none := by
                  cases ho : r.owner with
                  | none => rfl
                  | some _ => simp [ho] at hown
                exact kinv_replace hk _ ht hi hr her this hn.symm
    · next hl =>
      refine kinv_addNew hk ht ?_
      intro x hx; rw [hr] at hx; cases hx; exact hl
  · exact hk

/-- under the invariant AddReference never indexes out of range -/
theorem addReference_no_panic {k : KW RefD} (hk : KInv k) (h o : Nat) : (addReference k h o).2 ≠ .panic := by
  unfold addReference
  split
  · next r t hr ht =>
    have T := hk.tab h t ht
    split
    · next dupID hl =>
      obtain ⟨eo, he⟩ := T.lookup_idx hl
      obtain ⟨i, er, _, _, her, _⟩ := T.lookup_item hl he
      simp only [he, her]
      split
      · simp
      · split
        · simp
        · split <;> simp
    · unfold KW.addNew
      split
      · split <;> simp
      · simp
  · simp

end Hts.Model.Header
