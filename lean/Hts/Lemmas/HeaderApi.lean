/-
C07 helper lemmas, part 17: what "built through the API" means for a view; the concrete worlds used as the
counterexample (defect #26) and as the non-vacuity example of the round-trip theorems.
-/
import Hts.Lemmas.HeaderBin
namespace Hts.Model.Header

theorem kinds_of_winv {w : World} (hw : WInv w) {h : Nat} (hh : h < w.hdrs.length) :
    KindInv w.refs h ∧ KindInv w.rgs h ∧ KindInv w.pgs h := by
  have e1 : ∃ t, w.refs.tabs[h]? = some t := ⟨w.refs.tabs[h]'(by rw [hw.lr]; exact hh), by simp [hw.lr, hh]⟩
  have e2 : ∃ t, w.rgs.tabs[h]? = some t := ⟨w.rgs.tabs[h]'(by rw [hw.lg]; exact hh), by simp [hw.lg, hh]⟩
  have e3 : ∃ t, w.pgs.tabs[h]? = some t := ⟨w.pgs.tabs[h]'(by rw [hw.lp]; exact hh), by simp [hw.lp, hh]⟩
  obtain ⟨t1, h1⟩ := e1; obtain ⟨t2, h2⟩ := e2; obtain ⟨t3, h3⟩ := e3
  exact ⟨⟨t1, h1, hw.refs.tab h t1 h1⟩, ⟨t2, h2, hw.rgs.tab h t2 h2⟩, ⟨t3, h3, hw.pgs.tab h t3 h3⟩⟩

/-- a reference as the API builds it; nothing is asked of its URI but cleanliness -/
structure ApiRef (name : Bytes) (d : RefD) : Prop where
  name : Clean name
  len : validLen d.len = true
  md5 : d.md5 = [] ∨ (d.md5.length = 16 ∧ ∀ b ∈ d.md5, b < 256)
  asm : Clean d.asm
  sp : Clean d.sp
  uri : ∀ p u, d.uri = some (p, u) → Clean u
  other : WFOther knownRef d.other

structure ApiBuilt (E : Ext) (v : View) : Prop where
  hd : WFHd v.f
  refs : ∀ r ∈ v.refs, ApiRef r.2.1 r.2.2
  rgs : ∀ r ∈ v.rgs, WFRg E r.2.1 r.2.2
  pgs : ∀ r ∈ v.pgs, WFPg r.2.1 r.2.2

/-- every URI is in the form the @SQ parser produces (scheme http, ftp or file): defect #26 -/
def UriCanon (E : Ext) (v : View) : Prop :=
  ∀ r ∈ v.refs, ∀ p u, r.2.2.uri = some (p, u) → E.parseUri u = some u

theorem normRef_idem (d : RefD) : normRef (normRef d) = normRef d := by
  cases d with
  | mk len md5 asm sp uri other => cases uri <;> simp [normRef]

theorem items_names_nodup {α : Type} {k : KW α} {h : Nat} {t : Tab} (ht : k.tabs[h]? = some t)
    (T : TabInv k.heap h t) : ((items k h).map (·.2.1)).Nodup := by
  apply nodup_of_inj
  intro a b n ha hb
  rw [List.getElem?_map] at ha hb
  cases hia : (items k h)[a]? with
  | none => simp [hia] at ha
  | some x =>
    cases hib : (items k h)[b]? with
    | none => simp [hib] at hb
    | some y =>
      simp [hia] at ha; simp [hib] at hb
      obtain ⟨o, xo, h1, h2, rfl⟩ := (items_get ht T a x).1 hia
      obtain ⟨o', xo', h3, h4, rfl⟩ := (items_get ht T b y).1 hib
      exact T.name_inj h1 h3 h2 h4 (by simp only at ha hb; rw [ha, hb])

/-- the view of a header of a consistent world is well-formed as soon as its contents are API-built -/
theorem wfview_of (E : Ext) {w : World} (hw : WInv w) {h : Nat} (hh : h < w.hdrs.length)
    (api : ApiBuilt E (view w h)) (uc : UriCanon E (view w h)) : WFView E (view w h) := by
  obtain ⟨⟨tr, htr, Tr⟩, ⟨tg, htg, Tg⟩, ⟨tp, htp, Tp⟩⟩ := kinds_of_winv hw hh
  refine ⟨api.hd, ?_, api.rgs, api.pgs, ?_, ?_, ?_, ?_, ?_, ?_⟩
  · intro r hr
    have a := api.refs r hr
    refine ⟨⟨a.name, a.len, a.md5, a.asm, a.sp, fun p u hu => ⟨a.uri p u hu, uc r hr p u hu⟩, a.other⟩, ?_⟩
    simp only [view, List.mem_map] at hr
    obtain ⟨x, _, rfl⟩ := hr
    exact normRef_idem _
  · intro i r hr
    simp only [view, List.getElem?_map] at hr
    cases hi : (items w.refs h)[i]? with
    | none => simp [hi] at hr
    | some x => simp [hi] at hr; subst hr; exact items_ids htr Tr i x hi
  · intro i r hr; exact items_ids htg Tg i r hr
  · intro i r hr; exact items_ids htp Tp i r hr
  · have := items_names_nodup htr Tr
    simpa [view, List.map_map, Function.comp_def] using this
  · exact items_names_nodup htg Tg
  · exact items_names_nodup htp Tp

def wW : World := run goExt {} [.h0, .nr [97] { len := 10, uri := some (0, str "/data/a.fa") }, .ar 0 0]

theorem wW_inv : WInv wW := winv_run goExt _ {} winv_empty

set_option maxRecDepth 100000 in
theorem wW_view : view wW 0 = ⟨{}, [(0, [97], { len := 10, uri := some (0, str "/data/a.fa") })], [], []⟩ := by rfl

theorem forall_nil {β : Type} {P : β → Prop} : ∀ x ∈ ([] : List β), P x := fun _ h => nomatch h

theorem wfOther_nil (known : List Tag) : WFOther known [] := ⟨List.nodup_nil, forall_nil, forall_nil⟩

theorem wfHd_empty : WFHd {} :=
  ⟨fun _ => ⟨rfl, rfl, rfl⟩, (by decide), (by decide), (by decide), wfOther_nil _, rfl, forall_nil⟩

theorem wW_api : ApiBuilt goExt (view wW 0) := by
  rw [wW_view]
  refine ⟨wfHd_empty, ?_, forall_nil, forall_nil⟩
  intro r hr
  simp only [List.mem_singleton] at hr; subst hr
  exact ⟨(by decide), (by decide), Or.inl rfl, (by decide), (by decide), (fun p u h => by cases h; decide), wfOther_nil _⟩

set_option maxRecDepth 100000 in
theorem wW_parse : ((view (unmarshalText goExt (pushHeader wW {}) wW.hdrs.length (marshalText wW 0)).1
    wW.hdrs.length).refs.map fun x => x.2.2.uri) = [some (0, str "file:///data/a.fa")] := by decide

set_option maxRecDepth 100000 in
theorem wW_decode : ((view (decodeBinary goExt (pushHeader wW {}) wW.hdrs.length (marshalBinary wW 0)).1
    wW.hdrs.length).refs.map fun x => x.2.2.uri) = [some (0, str "file:///data/a.fa")] := by decide

def exText : Bytes := str "@HD\tVN:1.6\tSO:coordinate\n@SQ\tSN:chr1\tLN:1000\tM5:000102030405060708090a0b0c0d0e0f\tUR:http://h/a.fa\tXX:v 1\n@RG\tID:g1\tDT:2014-08-13T16:02:01+0530\tPI:-5\n@PG\tID:bwa\tPN:bwa\tVN:0.7\n@CO\ta\tb\n"
def wE : World := run goExt {} [.pa exText]

set_option maxRecDepth 100000 in
theorem wE_view : view wE 0 =
    ⟨{ version := str "1.6", so := 3, comments := [str "a\tb"] },
     [(0, str "chr1", { len := 1000, md5 := [0, 1, 2, 3, 4, 5, 6, 7, 8, 9, 10, 11, 12, 13, 14, 15],
                        uri := some (0, str "http://h/a.fa"), other := [((88, 88), str "v 1")] })],
     [(0, str "g1", { dt := str "2014-08-13T16:02:01+0530", pi := -5 })],
     [(0, str "bwa", { pn := str "bwa", vn := str "0.7" })]⟩ := by rfl

theorem wE_api : ApiBuilt goExt (view wE 0) ∧ UriCanon goExt (view wE 0) := by
  rw [wE_view]
  refine ⟨⟨⟨(fun h => nomatch h), (by decide), (by decide), (by decide), wfOther_nil _, rfl, ?_⟩, ?_, ?_, ?_⟩, ?_⟩
  · intro c hc; simp only [List.mem_singleton] at hc; subst hc; decide
  · intro r hr
    simp only [List.mem_singleton] at hr; subst hr
    refine ⟨(by decide), (by decide), Or.inr ⟨rfl, (by decide)⟩, (by decide), (by decide), (fun p u h => by cases h; decide), ?_⟩
    exact ⟨(by decide), (fun tv h => by simp only [List.mem_singleton] at h; subst h; decide),
      (fun tv h => by simp only [List.mem_singleton] at h; subst h; decide)⟩
  · intro r hr
    simp only [List.mem_singleton] at hr; subst hr
    exact ⟨(by decide), (by decide), (by decide), Or.inr ⟨(by decide), (by decide)⟩, (by decide), (by decide), (by decide),
      (by decide), (by decide), (by decide), (by decide), (by decide), wfOther_nil _⟩
  · intro r hr
    simp only [List.mem_singleton] at hr; subst hr
    exact ⟨(by decide), (by decide), (by decide), (by decide), (by decide), wfOther_nil _⟩
  · intro r hr p u hu
    simp only [List.mem_singleton] at hr; subst hr
    cases hu; decide

/-- a header built through the API only: four references added and the second one removed, three read groups of
which one is removed and one renamed, three programs -/
def wM : World := run goExt {} [.h0, .sh 0 (str "1.6") 1 2,
  .nr (str "a") { len := 10 }, .nr (str "b") { len := 20 }, .nr (str "c") { len := 30 }, .nr (str "d") { len := 40 },
  .ar 0 0, .ar 0 1, .ar 0 2, .ar 0 3, .rr 0 1,
  .ng (str "g1") {}, .ng (str "g2") {}, .ng (str "g3") {}, .ng (str "g4") {}, .ag 0 0, .ag 0 1, .ag 0 2, .ag 0 3,
  .rg 0 0, .sg 2 (str "x"),
  .np (str "p1") {}, .np (str "p2") {}, .np (str "p3") {}, .ap 0 0, .ap 0 1, .ap 0 2]

set_option maxRecDepth 100000 in
theorem wM_view : view wM 0 =
    ⟨{ version := str "1.6", so := 1, go := 2 },
     [(0, str "a", { len := 10 }), (1, str "c", { len := 30 }), (2, str "d", { len := 40 })],
     [(0, str "g2", {}), (1, str "x", {}), (2, str "g4", {})],
     [(0, str "p1", {}), (1, str "p2", {}), (2, str "p3", {})]⟩ := by rfl

theorem wM_api : ApiBuilt goExt (view wM 0) ∧ UriCanon goExt (view wM 0) := by
  rw [wM_view]
  refine ⟨⟨⟨(fun h => nomatch h), (by decide), (by decide), (by decide), wfOther_nil _, rfl, forall_nil⟩, ?_, ?_, ?_⟩, ?_⟩
  · intro r hr
    simp only [List.mem_cons, List.not_mem_nil, or_false] at hr
    rcases hr with rfl | rfl | rfl <;>
      exact ⟨(by decide), (by decide), Or.inl rfl, (by decide), (by decide), (fun p u h => nomatch h), wfOther_nil _⟩
  · intro r hr
    simp only [List.mem_cons, List.not_mem_nil, or_false] at hr
    rcases hr with rfl | rfl | rfl <;>
      exact ⟨(by decide), (by decide), (by decide), Or.inl rfl, (by decide), (by decide), (by decide), (by decide),
        (by decide), (by decide), (by decide), (by decide), wfOther_nil _⟩
  · intro r hr
    simp only [List.mem_cons, List.not_mem_nil, or_false] at hr
    rcases hr with rfl | rfl | rfl <;>
      exact ⟨(by decide), (by decide), (by decide), (by decide), (by decide), wfOther_nil _⟩
  · intro r hr p u hu
    simp only [List.mem_cons, List.not_mem_nil, or_false] at hr
    rcases hr with rfl | rfl | rfl <;> cases hu

theorem wM_inv : WInv wM := winv_run goExt _ {} winv_empty

theorem wE_inv : WInv wE := winv_run goExt _ {} winv_empty

end Hts.Model.Header
