/-
The Go-shaped models of the bin functions (Int positions, explicit uint32 arithmetic, running level
offset) equal the specification's closed forms on the indexable range.  Core only, kernel-checked.
-/
import Hts.Lemmas.Bins
namespace Hts.Model.Coord
open Hts.Spec.Coord (levelOffset reg2binAux levelBins levelOffset_succ shift_mono pow8_pos)

theorem int_shr_nat (n s : Nat) : ((n : Int) >>> s) = ((n >>> s : Nat) : Int) := by
  rw [Int.shiftRight_eq_div_pow, Nat.shiftRight_eq_div_pow]
  norm_cast

theorem u32_nat (n : Nat) (h : n < 4294967296) : u32 (n : Int) = n := by
  unfold u32
  have : ((n : Int) % 4294967296) = n := by omega
  rw [this]; simp

theorem shr_lt (b k s : Nat) (h : b < 2 ^ (k + s)) : b >>> s < 2 ^ k := by
  rw [Nat.shiftRight_eq_div_pow]
  apply Nat.div_lt_of_lt_mul
  rw [← Nat.pow_add, Nat.add_comm]; exact h

theorem pow8_eq (l : Nat) : 8 ^ l = 2 ^ (3 * l) := by
  rw [Nat.pow_mul]

/-! ### BAI -/

theorem binFor_spec (beg end_ : Nat) (h1 : beg < end_) (h2 : end_ ≤ 2 ^ 29) :
    binFor beg end_ = Hts.Spec.Coord.reg2bin beg end_ 14 5 := by
  have he : ((end_ : Int) - 1) = ((end_ - 1 : Nat) : Int) := by omega
  have hb : beg < 2 ^ 29 := by omega
  unfold binFor Hts.Spec.Coord.reg2bin
  simp only [he, int_shr_nat]
  have l5 : levelOffset 5 = 4681 := by decide
  have l4 : levelOffset 4 = 585 := by decide
  have l3 : levelOffset 3 = 73 := by decide
  have l2 : levelOffset 2 = 9 := by decide
  have l1 : levelOffset 1 = 1 := by decide
  have b14 := shr_lt beg 15 14 (by simpa using hb)
  have b17 := shr_lt beg 12 17 (by simpa using hb)
  have b20 := shr_lt beg 9 20 (by simpa using hb)
  have b23 := shr_lt beg 6 23 (by simpa using hb)
  have b26 := shr_lt beg 3 26 (by simpa using hb)
  simp only [reg2binAux, l5, l4, l3, l2, l1]
  norm_cast
  repeat' split
  all_goals first | rfl | (rw [u32_nat _ (by omega)])

theorem rangeIncl_eq (off b e : Nat) (h : b ≤ e) :
    rangeIncl (off + b) (off + e) = (List.range (e - b + 1)).map (fun i => off + b + i) := by
  unfold rangeIncl
  have : off + b ≤ off + e := by omega
  simp only [this, if_true]
  have h2 : off + e - (off + b) + 1 = e - b + 1 := by omega
  rw [h2]

/-- within the indexable range the limit of repair C04-5 is the identity -/
theorem overlappingBinsFor_eq_core (beg end_ : Int) (h : end_ ≤ 536870912) :
    overlappingBinsFor beg end_ = overlappingBinsForCore beg end_ := by
  unfold overlappingBinsFor
  rw [if_neg (by omega)]

/-- beyond it the query is cut at 2^29 -/
theorem overlappingBinsFor_clamp (beg end_ : Int) (h : 536870912 < end_) :
    overlappingBinsFor beg end_ = overlappingBinsFor beg 536870912 := by
  unfold overlappingBinsFor
  rw [if_pos (by omega), if_neg (by omega)]

theorem overlappingBinsFor_spec (beg end_ : Nat) (h1 : beg < end_) (h2 : end_ ≤ 2 ^ 29) :
    overlappingBinsFor beg end_ = Hts.Spec.Coord.reg2bins beg end_ 14 5 := by
  have he : ((end_ : Int) - 1) = ((end_ - 1 : Nat) : Int) := by omega
  have hb : beg < 2 ^ 29 := by omega
  have hbe : beg ≤ end_ - 1 := by omega
  have hee : end_ - 1 < 2 ^ 29 := by omega
  rw [overlappingBinsFor_eq_core _ _ (by have : (2:Nat)^29 = 536870912 := by decide
                                         omega)]
  unfold overlappingBinsForCore Hts.Spec.Coord.reg2bins
  simp only [he, int_shr_nat]
  have l5 : levelOffset 5 = 4681 := by decide
  have l4 : levelOffset 4 = 585 := by decide
  have l3 : levelOffset 3 = 73 := by decide
  have l2 : levelOffset 2 = 9 := by decide
  have l1 : levelOffset 1 = 1 := by decide
  have l0 : levelOffset 0 = 0 := by decide
  have e14 := shr_lt (end_ - 1) 15 14 (by simpa using hee)
  have e17 := shr_lt (end_ - 1) 12 17 (by simpa using hee)
  have e20 := shr_lt (end_ - 1) 9 20 (by simpa using hee)
  have e23 := shr_lt (end_ - 1) 6 23 (by simpa using hee)
  have e26 := shr_lt (end_ - 1) 3 26 (by simpa using hee)
  have e29 : (end_ - 1) >>> 29 = 0 := by
    rw [Nat.shiftRight_eq_div_pow]; exact Nat.div_eq_of_lt hee
  have b29 : beg >>> 29 = 0 := by
    rw [Nat.shiftRight_eq_div_pow]; exact Nat.div_eq_of_lt hb
  have m14 := shift_mono hbe 14
  have m17 := shift_mono hbe 17
  have m20 := shift_mono hbe 20
  have m23 := shift_mono hbe 23
  have m26 := shift_mono hbe 26
  have r6 : List.range (5 + 1) = [0, 1, 2, 3, 4, 5] := by decide
  simp only [r6, baiLevels, List.flatMap_cons, List.flatMap_nil, List.append_nil, levelBins, l0, l1, l2, l3, l4, l5]
  norm_cast
  rw [u32_nat _ (by omega), u32_nat _ (by omega), u32_nat _ (by omega), u32_nat _ (by omega), u32_nat _ (by omega),
    u32_nat _ (by omega), u32_nat _ (by omega), u32_nat _ (by omega), u32_nat _ (by omega), u32_nat _ (by omega)]
  rw [rangeIncl_eq _ _ _ m14, rangeIncl_eq _ _ _ m17, rangeIncl_eq _ _ _ m20, rangeIncl_eq _ _ _ m23,
    rangeIncl_eq _ _ _ m26]
  simp [e29, b29]

/-! ### CSI: the running-offset loops equal the closed forms (depth ≤ 10 keeps every bin below 2^32) -/

theorem levelOffset_mono {a b : Nat} (h : a ≤ b) : levelOffset a ≤ levelOffset b := by
  induction h with
  | refl => exact Nat.le_refl _
  | step _ ih => rw [levelOffset_succ]; have := pow8_pos ‹Nat›; omega

theorem levelOffset_lt (l : Nat) (h : l ≤ 11) : levelOffset l < 4294967296 := by
  have := levelOffset_mono h
  have e : levelOffset 11 = 1227133513 := by decide
  omega

theorem shl1u32_eq (l : Nat) (h : l ≤ 10) : shl1u32 (l * 3) = 8 ^ l := by
  unfold shl1u32
  have : l * 3 < 32 := by omega
  simp only [this, if_true]
  rw [pow8_eq, Nat.mul_comm]

theorem csiT0_eq (d : Nat) (h : d ≤ 10) : csiT0 d = levelOffset d := by
  unfold csiT0
  rw [shl1u32_eq d h]
  have hp := pow8_pos d
  have hlt : 8 ^ d < 4294967296 := by
    rw [pow8_eq]
    have : 3 * d ≤ 30 := by omega
    calc 2 ^ (3 * d) ≤ 2 ^ 30 := Nat.pow_le_pow_right (by omega) this
      _ < 4294967296 := by decide
  have : (8 ^ d + 4294967295) % 4294967296 = 8 ^ d - 1 := by omega
  rw [this]; rfl

theorem reg2binLoop_spec (b e : Nat) : ∀ level s, level ≤ 10 → b < 2 ^ (s + 3 * level) →
    reg2binLoop b e level s (levelOffset level) = reg2binAux b e s level := by
  intro level
  induction level with
  | zero => intro s _ _; rfl
  | succ level ih =>
    intro s hl hb
    unfold reg2binLoop reg2binAux
    simp only [int_shr_nat]
    norm_cast
    have hlo := levelOffset_lt (level + 2) (by omega)
    have hsucc : levelOffset (level + 2) = levelOffset (level + 1) + 8 ^ (level + 1) := levelOffset_succ (level + 1)
    have hsucc0 := levelOffset_succ level
    have hbs : b >>> s < 2 ^ (3 * (level + 1)) := shr_lt b _ s (by rw [Nat.add_comm]; exact hb)
    rw [← pow8_eq] at hbs
    have h8 : 8 ^ (level + 1) = 8 * 8 ^ level := by rw [Nat.pow_succ]; omega
    have hp := pow8_pos level
    have hlo1 := levelOffset_lt (level + 1) (by omega)
    have hlo0 := levelOffset_lt level (by omega)
    generalize b >>> s = x at *
    generalize e >>> s = y at *
    split
    · rw [u32_nat _ (by omega)]
      omega
    · rw [shl1u32_eq level (by omega)]
      have : (levelOffset (level + 1) + 4294967296 - 8 ^ level) % 4294967296 = levelOffset level := by
        omega
      rw [this]
      apply ih (s + 3) (by omega)
      have : s + 3 + 3 * level = s + 3 * (level + 1) := by omega
      rw [this]; exact hb

theorem reg2bin_spec (beg end_ ms d : Nat) (hd : d ≤ 10) (h1 : beg < end_) (h2 : end_ ≤ 2 ^ (ms + 3 * d)) :
    reg2bin beg end_ ms d = Hts.Spec.Coord.reg2bin beg end_ ms d := by
  have he : ((end_ : Int) - 1) = ((end_ - 1 : Nat) : Int) := by omega
  unfold reg2bin Hts.Spec.Coord.reg2bin
  rw [he, csiT0_eq d hd]
  exact reg2binLoop_spec beg (end_ - 1) d ms hd (by omega)



theorem range_shift (n level : Nat) :
    (List.range (n + 1)).map (· + level) = level :: (List.range n).map (· + (level + 1)) := by
  rw [List.range_succ_eq_map]
  simp only [List.map_cons, List.map_map, Nat.zero_add, List.cons.injEq, true_and]
  apply List.map_congr_left
  intro a _
  simp only [Function.comp]
  omega

theorem reg2binsLoop_spec (b e ms d : Nat) (hd : d ≤ 10) (hbe : b ≤ e) (he : e < 2 ^ (ms + 3 * d)) :
    ∀ n level, level + n = d + 1 →
      reg2binsLoop b e n level ((ms + 3 * (d - level) : Nat) : Int) (levelOffset level) =
        ((List.range n).map (· + level)).flatMap (fun l => levelBins b e ms d l) := by
  intro n
  induction n with
  | zero => intro level _; rfl
  | succ n ih =>
    intro level hn
    unfold reg2binsLoop
    rw [range_shift, List.flatMap_cons]
    have hl : level ≤ d := by omega
    simp only [Int.toNat_natCast, int_shr_nat]
    have hlo1 := levelOffset_lt (level + 1) (by omega)
    have hsucc := levelOffset_succ level
    -- no uint32 wrap: offset + (e >> s) < offset(level+1)
    have hes : e >>> (ms + 3 * (d - level)) < 2 ^ (3 * level) := by
      apply shr_lt
      have : 3 * level + (ms + 3 * (d - level)) = ms + 3 * d := by omega
      rw [this]; exact he
    rw [← pow8_eq] at hes
    have hbs := shift_mono hbe (ms + 3 * (d - level))
    generalize hx : b >>> (ms + 3 * (d - level)) = x at *
    generalize hy : e >>> (ms + 3 * (d - level)) = y at *
    rw [u32_nat _ (by omega), u32_nat _ (by omega)]
    have m1 : (levelOffset level + x) % 4294967296 = levelOffset level + x := Nat.mod_eq_of_lt (by omega)
    have m2 : (levelOffset level + y) % 4294967296 = levelOffset level + y := Nat.mod_eq_of_lt (by omega)
    rw [m1, m2, rangeIncl_eq _ _ _ hbs]
    congr 1
    · unfold levelBins
      simp only [hx, hy]
    · rw [shl1u32_eq level (by omega)]
      have m3 : (levelOffset level + 8 ^ level) % 4294967296 = levelOffset (level + 1) := by
        rw [← hsucc]; exact Nat.mod_eq_of_lt hlo1
      rw [m3]
      cases n with
      | zero => rfl
      | succ n =>
        have : ((ms + 3 * (d - level) : Nat) : Int) - 3 = ((ms + 3 * (d - (level + 1)) : Nat) : Int) := by omega
        rw [this]
        exact ih (level + 1) (by omega)

/-- for a non-empty query inside the indexable range the limits of repair C04-6 are the identity -/
theorem reg2bins_eq_core (beg end_ : Int) (ms d : Nat) (h0 : 0 ≤ beg) (h1 : beg < end_)
    (h2 : end_ ≤ (2 : Int) ^ (ms + d * 3)) : reg2bins beg end_ ms d = reg2binsCore beg end_ ms d := by
  unfold reg2bins csiClampBeg csiClampEnd
  rw [if_neg (by omega), if_neg (by omega), if_neg (by omega)]

theorem reg2bins_spec (beg end_ ms d : Nat) (hd : d ≤ 10) (h1 : beg < end_) (h2 : end_ ≤ 2 ^ (ms + 3 * d)) :
    reg2bins beg end_ ms d = Hts.Spec.Coord.reg2bins beg end_ ms d := by
  have he : ((end_ : Int) - 1) = ((end_ - 1 : Nat) : Int) := by omega
  have hpow : ((end_ : Nat) : Int) ≤ (2 : Int) ^ (ms + d * 3) := by
    have e : ms + d * 3 = ms + 3 * d := by omega
    rw [e]
    have : ((2 ^ (ms + 3 * d) : Nat) : Int) = (2 : Int) ^ (ms + 3 * d) := by rw [Int.natCast_pow]; rfl
    omega
  rw [reg2bins_eq_core _ _ _ _ (by omega) (by omega) hpow]
  unfold reg2binsCore Hts.Spec.Coord.reg2bins
  rw [he]
  have := reg2binsLoop_spec beg (end_ - 1) ms d hd (by omega) (by omega) (d + 1) 0 (by omega)
  simp only [Nat.sub_zero] at this
  have l0 : levelOffset 0 = 0 := by decide
  rw [l0] at this
  have hm : ms + d * 3 = ms + 3 * d := by omega
  rw [hm, this]
  simp

end Hts.Model.Coord
