/-
Lemmas for the header text parser model (C11).  Core Lean only.
-/
import Hts.Lemmas.Decoders
import Hts.Model.DecodersHeader
namespace Hts.Model.Decoders
open Outcome (ok err)

theorem fieldLoop_total {σ : Type} (act : σ → Bytes → Bytes → Outcome σ)
    (hact : ∀ st tag val, (act st tag val).isPanic = false) :
    ∀ (fs : List Bytes) (st : σ), (fieldLoop act fs st).isPanic = false := by
  intro fs
  induction fs with
  | nil => intro st; rfl
  | cons f fs ih =>
    intro st
    unfold fieldLoop
    split
    · rfl
    · rename_i h3
      rw [index_of_lt _ f 2 (by omega)]
      simp only
      split
      · rfl
      · rw [sliceTo_of_le _ f 2 (by omega), sliceFrom_of_le _ f 3 (by omega)]
        simp only
        have := hact st (f.take 2) (f.drop 3)
        cases h : act st (f.take 2) (f.drop 3) with
        | ok st' => exact ih st'
        | err => rfl
        | panic s => rw [h] at this; simp at this

theorem tagLine_total {σ : Type} (minFields : Nat) (hmin : 1 ≤ minFields) (act : σ → Bytes → Bytes → Outcome σ)
    (hact : ∀ st tag val, (act st tag val).isPanic = false) (l : Bytes) (st : σ) :
    (tagLine minFields act l st).isPanic = false := by
  unfold tagLine
  simp only
  split
  · rfl
  · rw [sliceFrom_of_le _ _ 1 (by omega)]
    exact fieldLoop_total act hact _ st

theorem commentLineM_total (l : Bytes) : (commentLineM l).isPanic = false := by
  unfold commentLineM
  simp only
  split
  · rfl
  · exact index_total _ _ 1 (by omega)

theorem hexDecodeInto_total (dstLen : Nat) : ∀ (src : Bytes) (i : Nat), i + src.length / 2 ≤ dstLen →
    (hexDecodeInto dstLen i src).isPanic = false := by
  intro src
  induction h : src.length using Nat.strongRecOn generalizing src with
  | _ n ih =>
    intro i hi
    match src, h with
    | [], _ => rfl
    | [_], _ => rfl
    | a :: b :: rest, h =>
      unfold hexDecodeInto
      split
      · simp only [List.length_cons] at hi h
        have : i < dstLen := by omega
        rw [if_pos this]
        exact ih rest.length (by omega) rest rfl (i + 1) (by omega)
      · rfl

theorem md5Field_total (val : Bytes) : (md5Field val).isPanic = false := by
  unfold md5Field
  split
  · rfl
  · rename_i h
    apply hexDecodeInto_total
    have : val.length = 32 := by
      rcases Nat.lt_or_ge val.length 32 with h1 | h1
      · exact absurd (by omega) h
      · rcases Nat.lt_or_ge 32 val.length with h2 | h2
        · exact absurd (by omega) h
        · omega
    omega

theorem lineTag_total (l : Bytes) : (lineTag l).isPanic = false := by
  unfold lineTag
  apply bind_total
  · unfold stripCRIdx
    split
    · rename_i hpos
      have hi : indexInt "sam.Header.UnmarshalText:l[len(l)-1]" l ((l.length : Int) - 1) = ok (l[l.length - 1]'(by omega)) := by
        unfold indexInt
        rw [if_neg (by omega)]
        have : ((l.length : Int) - 1).toNat = l.length - 1 := by omega
        rw [this, index_of_lt _ _ _ (by omega)]
      rw [hi]
      simp only
      split
      · rw [sliceTo_of_le _ _ _ (by omega)]; rfl
      · rfl
    · rfl
  · intro l' _
    unfold lineTagBody
    split
    · rfl
    · rename_i h0
      rw [index_of_lt _ l' 0 (by omega)]
      simp only
      split
      · rfl
      · rename_i h
        have h3 : 3 ≤ l'.length := by
          rcases Nat.lt_or_ge l'.length 3 with h1 | h1
          · exact absurd (Or.inr h1) h
          · exact h1
        rw [slice_of_le _ l' 1 3 (by omega) h3]
        rfl

theorem lookupName_mem (seen : List (Bytes × Nat)) (name : Bytes) (id : Nat)
    (h : lookupName seen name = some id) : ∃ p ∈ seen, p.2 = id := by
  unfold lookupName at h
  split at h
  · rename_i p hp
    cases h
    exact ⟨p, List.mem_of_find?_eq_some hp, rfl⟩
  · cases h

/-- `bh.refs[dupID]` is in range because every id in `seenRefs` is, and registering a reference keeps
that invariant -/
theorem addRef_spec (t : RefTable) (hwf : t.wf) (name : Bytes) (same replaceable complete : Bool) :
    addRef t name same replaceable complete = err ∨
      ∃ t', addRef t name same replaceable complete = ok t' ∧ t'.wf := by
  unfold addRef
  split
  · exact Or.inl rfl
  · split
    · rename_i dupID hd
      obtain ⟨p, hp, hpid⟩ := lookupName_mem _ _ _ hd
      have hlt : dupID < t.nrefs := by rw [← hpid]; exact hwf p hp
      rw [index_of_lt _ _ dupID (by simpa using hlt)]
      simp only
      split
      · exact Or.inr ⟨t, rfl, hwf⟩
      · split
        · exact Or.inr ⟨t, rfl, hwf⟩
        · exact Or.inl rfl
    · right
      refine ⟨_, rfl, ?_⟩
      intro p hp
      simp only [List.mem_cons] at hp
      rcases hp with h | h
      · subst h; simp
      · have := hwf p h
        simp only
        omega

end Hts.Model.Decoders
