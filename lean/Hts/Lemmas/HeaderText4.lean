/-
C07 helper lemmas, part 13: parsing the lines of a serialised header, phase by phase.
-/
import Hts.Lemmas.HeaderText3
namespace Hts.Model.Header

def refRest (d : RefD) : Tags :=
  (if d.md5 = [] then [] else [(TAG "M5", hexEnc d.md5)]) ++ opt "AS" d.asm ++ opt "SP" d.sp ++ uriTags d.uri ++ d.other

theorem refTags_cons (name : Bytes) (d : RefD) :
    refTags name d = (TAG "SN", name) :: (TAG "LN", dec d.len) :: refRest d := by
  simp [refTags, refRest]

theorem notin_str_at (c : Nat) (hc : c = 9 ∨ c = 10 ∨ c = 13) (rec : String)
    (h : rec = "@SQ" ∨ rec = "@RG" ∨ rec = "@PG" ∨ rec = "@HD") : c ∉ str rec := by
  rcases h with rfl | rfl | rfl | rfl <;> rcases hc with rfl | rfl | rfl <;> decide

theorem parseLine_sq (E : Ext) {w : World} {hn : Nat} {t : Tab} (ht : w.refs.tabs[hn]? = some t) {f : HdrF}
    (hf : w.hdrs[hn]? = some f) (name : Bytes) (d : RefD) (wf : WFRef E name d) (hnew : lookup t.seen name = none) :
    parseLine E w hn (lineB "@SQ" (refTags name d)) =
      ({ w with refs := install w.refs hn name { d with uri := d.uri.map fun u => (w.nextUri, u.2) },
                nextUri := w.nextUri + 1 }, .ok) := by
  have hsplit := lineB_split "@SQ" (notin_str_at 9 (Or.inl rfl) _ (Or.inl rfl)) _ (refTags_clean wf)
  obtain ⟨seen', hloop⟩ := fieldLoop_fields (refAssign E w.nextUri) (refTags name d) {} _ []
    (refTags_nodup wf) (fun _ _ h => by cases h) (ref_loop E w.nextUri name d wf)
  rw [refTags_cons] at hsplit hloop
  simp only [List.map_cons] at hsplit hloop
  have hl : lineB "@SQ" (refTags name d) = 64 :: 83 :: 81 :: (refTags name d).flatMap fieldBytes := rfl
  have hr : referenceLine E w.refs w.nextUri hn (lineB "@SQ" (refTags name d)) =
      (install w.refs hn name { d with uri := d.uri.map fun u => (w.nextUri, u.2) }, .ok) := by
    unfold referenceLine
    rw [refTags_cons, hsplit]
    simp only [hloop, ht, hnew]
    rfl
  unfold parseLine
  rw [hl]
  simp only [hf]
  rw [← hl, hr]
  simp

theorem parseLine_rg (E : Ext) {w : World} {hn : Nat} {t : Tab} (ht : w.rgs.tabs[hn]? = some t) {f : HdrF}
    (hf : w.hdrs[hn]? = some f) (name : Bytes) (d : RgD) (wf : WFRg E name d) (hnew : lookup t.seen name = none) :
    parseLine E w hn (lineB "@RG" (rgTags name d)) = ({ w with rgs := install w.rgs hn name d }, .ok) := by
  have hsplit := lineB_split "@RG" (notin_str_at 9 (Or.inl rfl) _ (Or.inr (Or.inl rfl))) _ (rgTags_clean wf)
  obtain ⟨seen', hloop⟩ := fieldLoop_fields (rgAssign E (fun n => (lookup t.seen n).isSome)) (rgTags name d) {} _ []
    (rgTags_nodup wf) (fun _ _ h => by cases h) (rg_loop E _ name d wf (by simp [hnew]))
  have hcons : ∃ tv ts, rgTags name d = tv :: ts := ⟨(TAG "ID", name), _, by simp [rgTags]; rfl⟩
  obtain ⟨tv, ts, hc⟩ := hcons
  have hl : lineB "@RG" (rgTags name d) = 64 :: 82 :: 71 :: (rgTags name d).flatMap fieldBytes := rfl
  have hr : readGroupLine E w.rgs hn (lineB "@RG" (rgTags name d)) = (install w.rgs hn name d, .ok) := by
    rw [hc] at hsplit hloop
    simp only [List.map_cons] at hsplit hloop
    unfold readGroupLine
    rw [hc, hsplit]
    simp only [ht, hloop]
    rfl
  unfold parseLine
  rw [hl]
  simp only [hf]
  rw [← hl, hr]
  simp

theorem parseLine_pg (E : Ext) {w : World} {hn : Nat} {t : Tab} (ht : w.pgs.tabs[hn]? = some t) {f : HdrF}
    (hf : w.hdrs[hn]? = some f) (name : Bytes) (d : PgD) (wf : WFPg name d) (hnew : lookup t.seen name = none) :
    parseLine E w hn (lineB "@PG" (pgTags name d)) = ({ w with pgs := install w.pgs hn name d }, .ok) := by
  have hsplit := lineB_split "@PG" (notin_str_at 9 (Or.inl rfl) _ (Or.inr (Or.inr (Or.inl rfl)))) _ (pgTags_clean wf)
  obtain ⟨seen', hloop⟩ := fieldLoop_fields (pgAssign (fun n => (lookup t.seen n).isSome)) (pgTags name d) {} _ []
    (pgTags_nodup wf) (fun _ _ h => by cases h) (pg_loop _ name d wf (by simp [hnew]))
  have hcons : ∃ tv ts, pgTags name d = tv :: ts := ⟨(TAG "ID", name), _, by simp [pgTags]; rfl⟩
  obtain ⟨tv, ts, hc⟩ := hcons
  have hl : lineB "@PG" (pgTags name d) = 64 :: 80 :: 71 :: (pgTags name d).flatMap fieldBytes := rfl
  have hr : programLine w.pgs hn (lineB "@PG" (pgTags name d)) = (install w.pgs hn name d, .ok) := by
    rw [hc] at hsplit hloop
    simp only [List.map_cons] at hsplit hloop
    unfold programLine
    rw [hc, hsplit]
    simp only [ht, hloop]
    rfl
  unfold parseLine
  rw [hl]
  simp only [hf]
  rw [← hl, hr]
  simp

theorem parseLine_co (E : Ext) {w : World} {hn : Nat} {f : HdrF} (hf : w.hdrs[hn]? = some f) (c : Bytes) :
    parseLine E w hn (str "@CO\t" ++ c) = (setHdr w hn { f with comments := f.comments ++ [c] }, .ok) := by
  have hl : str "@CO\t" ++ c = 64 :: 67 :: 79 :: 9 :: c := rfl
  have hs : splitOnce 9 (str "@CO\t" ++ c) = [str "@CO", c] := by
    rw [show str "@CO\t" ++ c = str "@CO" ++ 9 :: c from rfl]
    exact splitOnce_append 9 c _ (by decide)
  unfold parseLine
  rw [hl]
  simp only [hf]
  rw [← hl]
  simp [commentLine, hs]

theorem parseLines_cons_ok (E : Ext) {w w' : World} {h : Nat} {l : Bytes} (ls : List Bytes) (h13 : 13 ∉ l)
    (hne : l ≠ []) (hp : parseLine E w h l = (w', .ok)) : parseLines E w h (l :: ls) = parseLines E w' h ls := by
  rw [parseLines]
  simp only [dropCR_id h13, hne, if_false, hp]

theorem normRef_ptr (d : RefD) (p : Nat) : normRef { d with uri := d.uri.map fun u => (p, u.2) } = normRef d := by
  cases d with
  | mk len md5 asm sp uri other => cases uri <;> simp [normRef]

theorem lineB_ne_nil (rec : String) (ts : Tags) (h : str rec ≠ []) : lineB rec ts ≠ [] := by
  intro e; simp only [lineB, List.append_eq_nil_iff] at e; exact h e.1

/-- the @SQ lines of a list of references are parsed into those references, appended in order -/
theorem parse_refs (E : Ext) (hn : Nat) (rest : List Bytes) : ∀ (rs : List (Bytes × RefD)) (w : World), WInv w →
    hn < w.hdrs.length → (∀ r ∈ rs, WFRef E r.1 r.2) → (rs.map (·.1)).Nodup →
    (∀ r ∈ rs, r.1 ∉ (items w.refs hn).map (fun x => x.2.1)) →
    ∃ w', parseLines E w hn (rs.map (fun r => lineB "@SQ" (refTags r.1 r.2)) ++ rest) = parseLines E w' hn rest ∧
      WInv w' ∧ w'.hdrs = w.hdrs ∧ w'.rgs = w.rgs ∧ w'.pgs = w.pgs ∧
      (items w'.refs hn).map (fun x => (x.2.1, normRef x.2.2)) =
        (items w.refs hn).map (fun x => (x.2.1, normRef x.2.2)) ++ rs.map (fun r => (r.1, normRef r.2)) := by
  intro rs
  induction rs with
  | nil => intro w hw _ _ _ _; exact ⟨w, rfl, hw, rfl, rfl, rfl, by simp⟩
  | cons r rs ih =>
    intro w hw hlt hwf hnd hnot
    obtain ⟨name, d⟩ := r
    have wf := hwf (name, d) List.mem_cons_self
    obtain ⟨t, ht⟩ : ∃ t, w.refs.tabs[hn]? = some t := ⟨w.refs.tabs[hn]'(by rw [hw.lr]; exact hlt), by simp [hw.lr, hlt]⟩
    obtain ⟨f, hf⟩ : ∃ f, w.hdrs[hn]? = some f := ⟨w.hdrs[hn], by simp [hlt]⟩
    have T := hw.refs.tab hn t ht
    have hnew := lookup_none_of_names ht T (hnot (name, d) List.mem_cons_self)
    have hp := parseLine_sq E ht hf name d wf hnew
    have hw1 := winv_parseLine E hw hn (lineB "@SQ" (refTags name d))
    rw [hp] at hw1
    dsimp only at hw1
    have hit := items_install hw.refs ht name { d with uri := d.uri.map fun u => (w.nextUri, u.2) }
    simp only [List.map_cons, List.cons_append]
    rw [parseLines_cons_ok E _ (lineB_no 13 (Or.inr rfl) _ (notin_str_at 13 (Or.inr (Or.inr rfl)) _ (Or.inl rfl)) _ (refTags_clean wf))
      (lineB_ne_nil _ _ (by decide)) hp]
    simp only [List.map_cons, List.nodup_cons] at hnd
    obtain ⟨w', h1, h2, h3, h4, h5, h6⟩ := ih _ hw1 hlt (fun r hr => hwf r (List.mem_cons_of_mem _ hr)) hnd.2 (by
      intro r hr
      show r.1 ∉ (items (install w.refs hn name _) hn).map (fun x => x.2.1)
      rw [hit]
      simp only [List.map_append, List.map_cons, List.map_nil, List.mem_append, List.mem_singleton, not_or]
      exact ⟨hnot r (List.mem_cons_of_mem _ hr), fun e => hnd.1 (e ▸ List.mem_map_of_mem hr)⟩)
    refine ⟨w', h1, h2, h3, h4, h5, ?_⟩
    rw [h6]
    show (items (install w.refs hn name _) hn).map _ ++ _ = _
    rw [hit]
    simp [normRef_ptr]

theorem parse_rgs (E : Ext) (hn : Nat) (rest : List Bytes) : ∀ (rs : List (Bytes × RgD)) (w : World), WInv w →
    hn < w.hdrs.length → (∀ r ∈ rs, WFRg E r.1 r.2) → (rs.map (·.1)).Nodup →
    (∀ r ∈ rs, r.1 ∉ (items w.rgs hn).map (fun x => x.2.1)) →
    ∃ w', parseLines E w hn (rs.map (fun r => lineB "@RG" (rgTags r.1 r.2)) ++ rest) = parseLines E w' hn rest ∧
      WInv w' ∧ w'.hdrs = w.hdrs ∧ w'.refs = w.refs ∧ w'.pgs = w.pgs ∧
      (items w'.rgs hn).map (fun x => x.2) = (items w.rgs hn).map (fun x => x.2) ++ rs := by
  intro rs
  induction rs with
  | nil => intro w hw _ _ _ _; exact ⟨w, rfl, hw, rfl, rfl, rfl, by simp⟩
  | cons r rs ih =>
    intro w hw hlt hwf hnd hnot
    obtain ⟨name, d⟩ := r
    have wf := hwf (name, d) List.mem_cons_self
    obtain ⟨t, ht⟩ : ∃ t, w.rgs.tabs[hn]? = some t := ⟨w.rgs.tabs[hn]'(by rw [hw.lg]; exact hlt), by simp [hw.lg, hlt]⟩
    obtain ⟨f, hf⟩ : ∃ f, w.hdrs[hn]? = some f := ⟨w.hdrs[hn], by simp [hlt]⟩
    have T := hw.rgs.tab hn t ht
    have hnew := lookup_none_of_names ht T (hnot (name, d) List.mem_cons_self)
    have hp := parseLine_rg E ht hf name d wf hnew
    have hw1 := winv_parseLine E hw hn (lineB "@RG" (rgTags name d))
    rw [hp] at hw1
    dsimp only at hw1
    have hit := items_install hw.rgs ht name d
    simp only [List.map_cons, List.cons_append]
    rw [parseLines_cons_ok E _ (lineB_no 13 (Or.inr rfl) _ (notin_str_at 13 (Or.inr (Or.inr rfl)) _ (Or.inr (Or.inl rfl))) _ (rgTags_clean wf))
      (lineB_ne_nil _ _ (by decide)) hp]
    simp only [List.map_cons, List.nodup_cons] at hnd
    obtain ⟨w', h1, h2, h3, h4, h5, h6⟩ := ih _ hw1 hlt (fun r hr => hwf r (List.mem_cons_of_mem _ hr)) hnd.2 (by
      intro r hr
      show r.1 ∉ (items (install w.rgs hn name d) hn).map (fun x => x.2.1)
      rw [hit]
      simp only [List.map_append, List.map_cons, List.map_nil, List.mem_append, List.mem_singleton, not_or]
      exact ⟨hnot r (List.mem_cons_of_mem _ hr), fun e => hnd.1 (e ▸ List.mem_map_of_mem hr)⟩)
    refine ⟨w', h1, h2, h3, h4, h5, ?_⟩
    rw [h6]
    show (items (install w.rgs hn name d) hn).map _ ++ _ = _
    rw [hit]
    simp

theorem parse_pgs (E : Ext) (hn : Nat) (rest : List Bytes) : ∀ (rs : List (Bytes × PgD)) (w : World), WInv w →
    hn < w.hdrs.length → (∀ r ∈ rs, WFPg r.1 r.2) → (rs.map (·.1)).Nodup →
    (∀ r ∈ rs, r.1 ∉ (items w.pgs hn).map (fun x => x.2.1)) →
    ∃ w', parseLines E w hn (rs.map (fun r => lineB "@PG" (pgTags r.1 r.2)) ++ rest) = parseLines E w' hn rest ∧
      WInv w' ∧ w'.hdrs = w.hdrs ∧ w'.refs = w.refs ∧ w'.rgs = w.rgs ∧
      (items w'.pgs hn).map (fun x => x.2) = (items w.pgs hn).map (fun x => x.2) ++ rs := by
  intro rs
  induction rs with
  | nil => intro w hw _ _ _ _; exact ⟨w, rfl, hw, rfl, rfl, rfl, by simp⟩
  | cons r rs ih =>
    intro w hw hlt hwf hnd hnot
    obtain ⟨name, d⟩ := r
    have wf := hwf (name, d) List.mem_cons_self
    obtain ⟨t, ht⟩ : ∃ t, w.pgs.tabs[hn]? = some t := ⟨w.pgs.tabs[hn]'(by rw [hw.lp]; exact hlt), by simp [hw.lp, hlt]⟩
    obtain ⟨f, hf⟩ : ∃ f, w.hdrs[hn]? = some f := ⟨w.hdrs[hn], by simp [hlt]⟩
    have T := hw.pgs.tab hn t ht
    have hnew := lookup_none_of_names ht T (hnot (name, d) List.mem_cons_self)
    have hp := parseLine_pg E ht hf name d wf hnew
    have hw1 := winv_parseLine E hw hn (lineB "@PG" (pgTags name d))
    rw [hp] at hw1
    dsimp only at hw1
    have hit := items_install hw.pgs ht name d
    simp only [List.map_cons, List.cons_append]
    rw [parseLines_cons_ok E _ (lineB_no 13 (Or.inr rfl) _ (notin_str_at 13 (Or.inr (Or.inr rfl)) _ (Or.inr (Or.inr (Or.inl rfl)))) _ (pgTags_clean wf))
      (lineB_ne_nil _ _ (by decide)) hp]
    simp only [List.map_cons, List.nodup_cons] at hnd
    obtain ⟨w', h1, h2, h3, h4, h5, h6⟩ := ih _ hw1 hlt (fun r hr => hwf r (List.mem_cons_of_mem _ hr)) hnd.2 (by
      intro r hr
      show r.1 ∉ (items (install w.pgs hn name d) hn).map (fun x => x.2.1)
      rw [hit]
      simp only [List.map_append, List.map_cons, List.map_nil, List.mem_append, List.mem_singleton, not_or]
      exact ⟨hnot r (List.mem_cons_of_mem _ hr), fun e => hnd.1 (e ▸ List.mem_map_of_mem hr)⟩)
    refine ⟨w', h1, h2, h3, h4, h5, ?_⟩
    rw [h6]
    show (items (install w.pgs hn name d) hn).map _ ++ _ = _
    rw [hit]
    simp

/-- the @CO lines are parsed into the comments, appended in order -/
theorem parse_cos (E : Ext) (hn : Nat) (rest : List Bytes) : ∀ (cs : List Bytes) (w : World) (f : HdrF),
    w.hdrs[hn]? = some f → (∀ c ∈ cs, 13 ∉ c) →
    parseLines E w hn (cs.map (fun c => str "@CO\t" ++ c) ++ rest) =
      parseLines E (setHdr w hn { f with comments := f.comments ++ cs }) hn rest := by
  intro cs
  induction cs with
  | nil =>
    intro w f hf _
    have : setHdr w hn { f with comments := f.comments ++ [] } = w := by
      simp only [List.append_nil, setHdr]
      have : w.hdrs.set hn f = w.hdrs := by
        apply List.ext_getElem?; intro i
        rw [set_get _ _ _ _ _ hf]; split
        · subst_vars; exact hf.symm
        · rfl
      cases w; simp_all
    simp only [List.map_nil, List.nil_append]
    rw [this]
  | cons c cs ih =>
    intro w f hf h13
    simp only [List.map_cons, List.cons_append]
    have hl13 : 13 ∉ str "@CO\t" ++ c := by
      intro hm; rcases List.mem_append.1 hm with hm | hm
      · revert hm; decide
      · exact h13 c List.mem_cons_self hm
    rw [parseLines_cons_ok E _ hl13 (by simp [str]) (parseLine_co E hf c)]
    have hf' : (setHdr w hn { f with comments := f.comments ++ [c] }).hdrs[hn]? = some { f with comments := f.comments ++ [c] } := by
      simp only [setHdr]; rw [set_get _ _ _ _ _ hf]; simp
    rw [ih _ _ hf' (fun c' h' => h13 c' (List.mem_cons_of_mem _ h'))]
    congr 1
    simp only [setHdr, List.append_assoc, List.singleton_append]
    congr 1
    apply List.ext_getElem?; intro i
    have hlt := get_lt hf
    simp only [List.getElem?_set, List.length_set]
    split <;> simp_all

end Hts.Model.Header
