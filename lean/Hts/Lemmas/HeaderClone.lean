/-
C07 helper lemmas, part 4: the invariant is kept by Clone (of an object, of a header's table); table counts.
-/
import Hts.Lemmas.HeaderAdd
import Hts.Lemmas.HeaderRemove
namespace Hts.Model.Header
variable {α : Type}

theorem kinv_cloneObj {k : KW α} (hk : KInv k) (o : Nat) (f : α → α) : KInv (k.cloneObj o f).1 := by
  unfold KW.cloneObj
  split
  · exact kinv_alloc hk _ rfl
  · exact hk

theorem cloneItems_spec (hn : Nat) : ∀ (os : List Nat) (heap : List (Obj α)), (∀ o ∈ os, o < heap.length) →
    (KW.cloneItems hn heap os).2.length = os.length ∧
    (KW.cloneItems hn heap os).1.length = heap.length + os.length ∧
    (∀ (q : Nat), q < heap.length → (KW.cloneItems hn heap os).1[q]? = heap[q]?) ∧
    (∀ (j : Nat), j < os.length → (KW.cloneItems hn heap os).2[j]? = some (heap.length + j)) ∧
    (∀ (j o : Nat) (x : Obj α), os[j]? = some o → heap[o]? = some x →
      (KW.cloneItems hn heap os).1[heap.length + j]? = some { x with owner := some hn }) := by
  intro os
  induction os with
  | nil => intro heap _; simp [KW.cloneItems]
  | cons o os ih =>
    intro heap hlt
    have ho : o < heap.length := hlt o List.mem_cons_self
    obtain ⟨x, hx⟩ : ∃ x, heap[o]? = some x := ⟨heap[o], by simp [ho]⟩
    have hlt' : ∀ o' ∈ os, o' < (heap ++ [{ x with owner := some hn }]).length := by
      intro o' ho'; have := hlt o' (List.mem_cons_of_mem _ ho'); simp; omega
    obtain ⟨h1, h2, h3, h4, h5⟩ := ih (heap ++ [{ x with owner := some hn }]) hlt'
    simp only [KW.cloneItems, hx]
    simp only [List.length_append, List.length_cons, List.length_nil] at h1 h2 h3 h4 h5 ⊢
    refine ⟨by omega, by omega, ?_, ?_, ?_⟩
    · intro q hq
      rw [h3 q (by omega)]; exact List.getElem?_append_left hq
    · intro j hj
      cases j with
      | zero => simp
      | succ j =>
        simp only [List.getElem?_cons_succ]
        rw [h4 j (by omega)]; congr 1; omega
    · intro j o' x' hj hx'
      cases j with
      | zero =>
        simp only [List.getElem?_cons_zero] at hj; cases hj
        rw [hx] at hx'; cases hx'
        rw [Nat.add_zero, h3 heap.length (by omega)]; simp
      | succ j =>
        simp only [List.getElem?_cons_succ] at hj
        have := h5 j o' x' hj (append_get_some _ hx')
        rw [← this]; congr 1; omega

theorem kinv_cloneTab {k : KW α} (hk : KInv k) (h : Nat) : KInv (k.cloneTab h) := by
  unfold KW.cloneTab
  split
  case h_2 => exact kinv_newTab hk
  next t ht =>
  have T := hk.tab h t ht
  have hlt : ∀ o ∈ t.items, o < k.heap.length := by
    intro o ho
    obtain ⟨i, hi⟩ := List.mem_iff_getElem?.1 ho
    obtain ⟨x, hx, _⟩ := T.own i o hi
    exact get_lt hx
  obtain ⟨h1, h2, h3, h4, h5⟩ := cloneItems_spec k.tabs.length t.items k.heap hlt
  generalize KW.cloneItems k.tabs.length k.heap t.items = r at h1 h2 h3 h4 h5
  obtain ⟨heap', items'⟩ := r
  simp only at h1 h2 h3 h4 h5 ⊢
  have hold : ∀ (q : Nat) (x : Obj α), k.heap[q]? = some x → heap'[q]? = some x := by
    intro q x hx; rw [h3 q (get_lt hx)]; exact hx
  have hitem : ∀ (j q : Nat), items'[j]? = some q → q = k.heap.length + j ∧ j < t.items.length := by
    intro j q hj
    have hjl : j < t.items.length := by have := get_lt hj; omega
    rw [h4 j hjl] at hj; cases hj; exact ⟨rfl, hjl⟩
  constructor
  · intro h' t' ht'
    simp only [snoc_get] at ht'
    split at ht'
    · refine (hk.tab h' t' ht').frame _ ?_
      intro i o hi
      obtain ⟨x, hx, _⟩ := (hk.tab h' t' ht').own i o hi
      rw [hold o x hx, hx]
    · split at ht'
      · next hh =>
        cases ht'; subst hh
        constructor
        · intro j q hj
          obtain ⟨rfl, hjl⟩ := hitem j q hj
          obtain ⟨o, ho⟩ : ∃ o, t.items[j]? = some o := ⟨t.items[j], by simp [hjl]⟩
          obtain ⟨x, hx, _, hid⟩ := T.own j o ho
          exact ⟨_, h5 j o x ho hx, rfl, hid⟩
        · intro j q y hj hy
          obtain ⟨rfl, hjl⟩ := hitem j q hj
          obtain ⟨o, ho⟩ : ∃ o, t.items[j]? = some o := ⟨t.items[j], by simp [hjl]⟩
          obtain ⟨x, hx, _, _⟩ := T.own j o ho
          rw [h5 j o x ho hx] at hy; cases hy
          exact T.known j o x ho hx
        · intro n v hv
          obtain ⟨i, o, x, hi, hx, hn, hv'⟩ := T.only n v hv
          exact ⟨i, k.heap.length + i, _, h4 i (get_lt hi), h5 i o x hi hx, hn, hv'⟩
      · cases ht'
  · intro q y h' hy ho
    by_cases hq : q < k.heap.length
    · rw [h3 q hq] at hy
      obtain ⟨t', i, ht', hid, hi⟩ := hk.obj q y h' hy ho
      exact ⟨t', i, append_get_some _ ht', hid, hi⟩
    · have hq' : q < heap'.length := get_lt hy
      obtain ⟨j, rfl⟩ : ∃ j, q = k.heap.length + j := ⟨q - k.heap.length, by omega⟩
      have hjl : j < t.items.length := by omega
      obtain ⟨o, ho'⟩ : ∃ o, t.items[j]? = some o := ⟨t.items[j], by simp [hjl]⟩
      obtain ⟨x, hx, _, hid⟩ := T.own j o ho'
      rw [h5 j o x ho' hx] at hy; cases hy
      simp only at ho; cases ho
      exact ⟨⟨items', t.seen⟩, j, by simp, hid, h4 j hjl⟩

/-! ### the number of tables -/

@[simp] theorem alloc_tabs_len (k : KW α) (x : Obj α) : (k.alloc x).1.tabs.length = k.tabs.length := rfl
@[simp] theorem newTab_tabs_len (k : KW α) : k.newTab.tabs.length = k.tabs.length + 1 := by simp [KW.newTab]
@[simp] theorem addNewU_tabs_len (k : KW α) (h o : Nat) : (k.addNewU h o).tabs.length = k.tabs.length := by
  unfold KW.addNewU; split <;> simp
@[simp] theorem addNew_tabs_len (k : KW α) (h o : Nat) : (k.addNew h o).1.tabs.length = k.tabs.length := by
  unfold KW.addNew; split
  · split <;> simp
  · rfl
@[simp] theorem addUniq_tabs_len (k : KW α) (h o : Nat) : (k.addUniq h o).1.tabs.length = k.tabs.length := by
  unfold KW.addUniq; split
  · split <;> simp
  · rfl
@[simp] theorem remove_tabs_len (k : KW α) (h o : Nat) : (k.remove h o).1.tabs.length = k.tabs.length := by
  unfold KW.remove; split
  · split
    · rfl
    · simp
  · rfl
@[simp] theorem setName_tabs_len (k : KW α) (o : Nat) (n : Bytes) : (k.setName o n).1.tabs.length = k.tabs.length := by
  unfold KW.setName
  repeat' split
  all_goals simp
@[simp] theorem cloneObj_tabs_len (k : KW α) (o : Nat) (f : α → α) : (k.cloneObj o f).1.tabs.length = k.tabs.length := by
  unfold KW.cloneObj; split <;> rfl
@[simp] theorem replace_tabs_len (k : KW α) (h : Nat) (s : Int) (eo o : Nat) (d : α) :
    (k.replace h s eo o d).tabs.length = k.tabs.length := by
  unfold KW.replace; split <;> simp
@[simp] theorem cloneTab_tabs_len (k : KW α) (h : Nat) : (k.cloneTab h).tabs.length = k.tabs.length + 1 := by
  unfold KW.cloneTab; split <;> simp
@[simp] theorem addReference_tabs_len (k : KW RefD) (h o : Nat) : (addReference k h o).1.tabs.length = k.tabs.length := by
  unfold addReference
  repeat' split
  all_goals simp

end Hts.Model.Header
