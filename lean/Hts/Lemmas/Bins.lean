/-
Spec-level facts about the binning scheme, for every (minShift, depth): kernel-checked, core only.
-/
import Hts.Spec.Coord
namespace Hts.Spec.Coord

theorem shift_mono {a b : Nat} (h : a ≤ b) (s : Nat) : a >>> s ≤ b >>> s := by
  simp only [Nat.shiftRight_eq_div_pow]
  exact Nat.div_le_div_right h

theorem pow8_pos (l : Nat) : 1 ≤ 8 ^ l := Nat.pow_pos (by omega)

/-- 8^l - 1 is a multiple of 7, with quotient `levelOffset l` -/
theorem seven_mul_levelOffset (l : Nat) : 7 * levelOffset l = 8 ^ l - 1 := by
  induction l with
  | zero => simp [levelOffset]
  | succ l ih =>
    have hp := pow8_pos l
    have h8 : 8 ^ (l + 1) = 8 * 8 ^ l := by rw [Nat.pow_succ]; omega
    unfold levelOffset at *
    rw [h8]
    omega

/-- each level has eight times the bins of the one above: offset(l+1) = offset(l) + 8^l -/
theorem levelOffset_succ (l : Nat) : levelOffset (l + 1) = levelOffset l + 8 ^ l := by
  have h1 := seven_mul_levelOffset l
  have h2 := seven_mul_levelOffset (l + 1)
  have hp := pow8_pos l
  have h8 : 8 ^ (l + 1) = 8 * 8 ^ l := by rw [Nat.pow_succ]; omega
  omega

theorem mem_levelBins (b e ms d l k : Nat) (hk1 : b >>> (ms + 3 * (d - l)) ≤ k)
    (hk2 : k ≤ e >>> (ms + 3 * (d - l))) : levelOffset l + k ∈ levelBins b e ms d l := by
  unfold levelBins
  simp only [List.mem_map, List.mem_range]
  exact ⟨k - (b >>> (ms + 3 * (d - l))), by omega, by omega⟩

/-- what `reg2binAux` returns: 0 (no level matched) or the offset of a level at which both ends agree -/
theorem reg2binAux_spec (b e : Nat) : ∀ (l s : Nat),
    reg2binAux b e s l = 0 ∨
    (∃ j, j < l ∧ b >>> (s + 3 * j) = e >>> (s + 3 * j) ∧
      reg2binAux b e s l = levelOffset (l - j) + (b >>> (s + 3 * j))) := by
  intro l
  induction l with
  | zero => intro s; left; simp [reg2binAux]
  | succ l ih =>
    intro s
    unfold reg2binAux
    split
    · right; exact ⟨0, by omega, by simpa, by simp⟩
    · rcases ih (s + 3) with h | ⟨j, hj, heq, hv⟩
      · left; exact h
      · right
        refine ⟨j + 1, by omega, ?_, ?_⟩
        · have : s + 3 * (j + 1) = s + 3 + 3 * j := by omega
          rw [this]; exact heq
        · have h1 : s + 3 * (j + 1) = s + 3 + 3 * j := by omega
          have h2 : l + 1 - (j + 1) = l - j := by omega
          rw [h1, h2]; exact hv

/-- **The bin of an interval is listed for every overlapping interval**, for every scheme.
Intervals are [b1, e1] and [b2, e2] with inclusive ends (e = end - 1). -/
theorem bin_in_bins_incl (b1 e1 b2 e2 ms d : Nat)
    (hov1 : b1 ≤ e2) (hov2 : b2 ≤ e1) (hr : b2 < 2 ^ (ms + 3 * d)) :
    reg2binAux b1 e1 ms d ∈ (List.range (d + 1)).flatMap (fun l => levelBins b2 e2 ms d l) := by
  simp only [List.mem_flatMap, List.mem_range]
  rcases reg2binAux_spec b1 e1 d ms with h | ⟨j, hj, heq, hv⟩
  · refine ⟨0, by omega, ?_⟩
    rw [h]
    have hz : b2 >>> (ms + 3 * (d - 0)) = 0 := by
      simp only [Nat.shiftRight_eq_div_pow, Nat.sub_zero]; exact Nat.div_eq_of_lt hr
    have := mem_levelBins b2 e2 ms d 0 0 (by rw [hz]; exact Nat.le_refl 0) (Nat.zero_le _)
    simpa [levelOffset] using this
  · refine ⟨d - j, by omega, ?_⟩
    rw [hv]
    apply mem_levelBins
    · have : d - (d - j) = j := by omega
      rw [this]
      calc b2 >>> (ms + 3 * j) ≤ e1 >>> (ms + 3 * j) := shift_mono hov2 _
        _ = b1 >>> (ms + 3 * j) := heq.symm
    · have : d - (d - j) = j := by omega
      rw [this]
      exact shift_mono hov1 _

/-- half-open form: [beg1,end1) and [beg2,end2) non-empty and overlapping -/
theorem bin_in_bins (beg1 end1 beg2 end2 ms d : Nat) (_h1 : beg1 < end1) (h2 : beg2 < end2)
    (hov1 : beg1 < end2) (hov2 : beg2 < end1) (hr : beg2 < 2 ^ (ms + 3 * d)) :
    reg2bin beg1 end1 ms d ∈ reg2bins beg2 end2 ms d := by
  unfold reg2bin reg2bins
  exact bin_in_bins_incl beg1 (end1 - 1) beg2 (end2 - 1) ms d (by omega) (by omega) hr

end Hts.Spec.Coord
