/-
The copy loop of `Reader.Read` on a split file: one-step unfoldings.
-/
import Hts.Lemmas.ReaderZip
namespace Hts.Model.Bgzf
open Hts.Spec.Flat

theorem Block.read_mk_lt (base hsize : Nat) (data : List UInt8) (k tf tb n : Nat) (h : k < data.length) :
    (Block.mk base hsize data k ⟨tf, tb⟩).read n = ((data.drop k).take n, false,
      ⟨base, hsize, data, k + min n (data.length - k), ⟨tf, (tb + min n (data.length - k)) % 65536⟩⟩) := by
  have : ¬ (data.length ≤ k) := by omega
  simp [Block.read, this]

theorem Block.read_mk_ge (base hsize : Nat) (data : List UInt8) (k : Nat) (tx : Offset) (n : Nat)
    (h : data.length ≤ k) :
    (Block.mk base hsize data k tx).read n = ([], true, Block.mk base hsize data k tx) := by
  simp [Block.read, h]

theorem Block.load_nil (pre : File) (m : Member) (hwf : WF (pre ++ [m])) (b : Block) :
    Block.load (pre ++ [m]) b (csum pre + m.csize) =
      (Block.failed (csum pre + m.csize), some .eof) := by
  have := memberAt_split (pre ++ [m]) [] hwf
  simp only [List.append_nil, csum_append, csum, Nat.add_zero, memberAt_zero_nil] at this
  simp [Block.load, this]

theorem Block.load_cons (pre : File) (m m' : Member) (post : File)
    (hwf : WF (pre ++ m :: m' :: post)) (b : Block) :
    Block.load (pre ++ m :: m' :: post) b (csum pre + m.csize) =
      (⟨csum pre + m.csize, m'.csize, m'.data, 0, ⟨csum pre + m.csize, 0⟩⟩, none) := by
  have hw : WF (pre ++ [m]) := by
    have : pre ++ m :: m' :: post = (pre ++ [m]) ++ (m' :: post) := by simp
    rw [this] at hwf; exact hwf.append_left
  have := memberAt_split (pre ++ [m]) (m' :: post) hw
  simp only [List.append_assoc, List.cons_append, List.nil_append, csum_append, csum, Nat.add_zero,
    memberAt_zero_cons] at this
  simp [Block.load, this]

/-- `want = 0`: the loop body is not entered. -/
theorem readLoop_zero (fuel : Nat) (r : Reader) :
    r.readLoop (fuel + 1) 0 = (r.setEnd, [], r.err) := by
  simp [Reader.readLoop]

/-- The state after consuming `x` more bytes of the current member. -/
def Reader.adv (r : Reader) (x : Nat) : Reader :=
  { r with cur := { r.cur with pos := r.cur.pos + x, tx := ⟨r.cur.tx.file, r.cur.tx.block + x⟩ } }

theorem At.adv {F : File} {r : Reader} {pre : File} {m : Member} {post : File} {k : Nat}
    (h : At F r pre m post k) (x : Nat) (hx : k + x ≤ m.data.length) :
    At F (r.adv x) pre m post (k + x) :=
  ⟨h.file, h.split, by simp [Reader.adv, h.cur], hx, h.err⟩

/-- One pass of the loop inside a member that still has data: `min n avail` bytes are copied. -/
theorem readLoop_step {F : File} (hwf : WF F) {r : Reader} {pre : File} {m : Member} {post : File}
    {k : Nat} (h : At F r pre m post k) (hk : k < m.data.length) (n fuel : Nat) (hn : 0 < n) :
    r.readLoop (fuel + 1) n =
      (let res := (r.adv (min n (m.data.length - k))).readLoop fuel (n - min n (m.data.length - k))
       (res.1, (m.data.drop k).take n ++ res.2.1, res.2.2)) := by
  have hlen : m.data.length < 65536 := (WF.mid (h.split ▸ hwf)).2
  obtain ⟨rf, rc, rl, re, rb⟩ := r
  obtain ⟨hf, hs, hc, hle, he⟩ := h
  simp only at hf hc he
  subst hf hc he
  have hmod : (k + min n (m.data.length - k)) % 65536 = k + min n (m.data.length - k) := by
    apply Nat.mod_eq_of_lt; omega
  have hl : ((m.data.drop k).take n).length = min n (m.data.length - k) := by simp
  simp only [Reader.readLoop, hn, and_self, if_true, Block.read_mk_lt _ _ _ _ _ _ _ hk, hl, hmod,
    Reader.adv]

/-- At the end of a member in unblocked mode with bytes still wanted: the file ends … -/
theorem readLoop_end_nil {F : File} (hwf : WF F) {r : Reader} {pre : File} {m : Member}
    (h : At F r pre m [] m.data.length) (hb : r.blocked = false) (n fuel : Nat) (hn : 0 < n) :
    r.readLoop (fuel + 1) n =
      (({ r with cur := Block.failed (csum F), err := some .eof } : Reader).setEnd,
        [], some .eof) := by
  obtain ⟨rf, rc, rl, re, rb⟩ := r
  obtain ⟨hf, hs, hc, hle, he⟩ := h
  simp only at hf hc he hb
  subst hf hc he hb hs
  have hn' : ¬ (n = 0) := by omega
  simp [Reader.readLoop, hn, Block.read_mk_ge, hn', Reader.nextBlock, Block.nextBase,
    Block.load_nil pre m hwf, csum]

/-- … or the next member is loaded and the loop goes on. -/
theorem readLoop_end_cons {F : File} (hwf : WF F) {r : Reader} {pre : File} {m m' : Member}
    {post : File} (h : At F r pre m (m' :: post) m.data.length) (hb : r.blocked = false)
    (n fuel : Nat) (hn : 0 < n) :
    r.readLoop (fuel + 1) n =
      ({ r with cur := ⟨csum (pre ++ [m]), m'.csize, m'.data, 0, ⟨csum (pre ++ [m]), 0⟩⟩ } : Reader).readLoop fuel n := by
  obtain ⟨rf, rc, rl, re, rb⟩ := r
  obtain ⟨hf, hs, hc, hle, he⟩ := h
  simp only at hf hc he hb
  subst hf hc he hb hs
  have hn' : ¬ (n = 0) := by omega
  simp [Reader.readLoop, hn, Block.read_mk_ge, hn', Reader.nextBlock, Block.nextBase,
    Block.load_cons pre m m' post hwf, csum]

/-- At the end of a member in Blocked mode with bytes still wanted: `io.EOF` is returned, not latched. -/
theorem readLoop_end_blocked {F : File} {r : Reader} {pre : File} {m : Member} {post : File}
    (h : At F r pre m post m.data.length) (hb : r.blocked = true) (n fuel : Nat) (hn : 0 < n) :
    r.readLoop (fuel + 1) n = (r.setEnd, [], some .eof) := by
  obtain ⟨rf, rc, rl, re, rb⟩ := r
  obtain ⟨hf, hs, hc, hle, he⟩ := h
  simp only at hf hc he hb
  subst hf hc he hb hs
  have hn' : ¬ (n = 0) := by omega
  simp [Reader.readLoop, hn, Block.read_mk_ge, hn']

end Hts.Model.Bgzf
