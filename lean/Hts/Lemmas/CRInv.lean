/-
ChunkReader proofs, part 2: chunk specifications, what remains to be delivered, the invariant between
calls, and the chunk-skipping loop.
-/
import Hts.Lemmas.CRBasic
namespace Hts.Model.Bgzf
open Hts.Spec.Flat

/-- A chunk with the logical positions its offsets name. -/
structure CSpec where
  c : Chunk
  p : Nat
  q : Nat

/-- `Begin` is a seek target, `End` an offset (possibly `(fileLen, 0)`), and the chunk is not inverted. -/
structure CSpec.Valid (F : File) (x : CSpec) : Prop where
  bgn : seekTarget (layoutOf F) x.c.bgn = some x.p
  fin : toLogical (layoutOf F) x.c.fin = some x.q
  le : x.p ≤ x.q

/-- Ordered and non-overlapping (chunks may touch and may be empty). -/
def Ordered : List CSpec → Prop
  | [] => True
  | [_] => True
  | x :: y :: rest => x.q ≤ y.p ∧ Ordered (y :: rest)

/-- The flat bytes between two logical positions. -/
def slice (F : File) (p q : Nat) : List UInt8 := ((flatBytes F).drop p).take (q - p)

/-- What a ChunkReader over these chunks has to deliver. -/
def expected (F : File) : List CSpec → List UInt8
  | [] => []
  | x :: xs => slice F x.p x.q ++ expected F xs

/-- What is still to be delivered when the reader stands at `pos` inside the first chunk. -/
def todo (F : File) : List CSpec → Nat → List UInt8
  | [], _ => []
  | x :: rest, pos => slice F pos x.q ++ expected F rest

theorem slice_self (F : File) (p : Nat) : slice F p p = [] := by simp [slice]

theorem slice_beyond (F : File) (p q : Nat) (h : flatLen F ≤ p) : slice F p q = [] := by
  simp [slice, List.drop_eq_nil_of_le, h]

theorem slice_split (F : File) (p a q : Nat) (h1 : p ≤ a) (h2 : a ≤ q) :
    slice F p q = slice F p a ++ slice F a q := by
  simp only [slice]
  have : q - p = (a - p) + (q - a) := by omega
  rw [this, List.take_add, List.drop_drop]
  congr 3; omega

/-- Bytes handed out from inside member `m`. -/
theorem slice_prefix_at {F pre post : File} {m : Member} (hF : F = pre ++ m :: post) (k x q : Nat)
    (hx : k + x ≤ m.data.length) (hq : flatLen pre + k + x ≤ q) :
    slice F (flatLen pre + k) q = (m.data.drop k).take x ++ slice F (flatLen pre + k + x) q := by
  rw [slice_split F _ (flatLen pre + k + x) q (by omega) hq]
  congr 1
  simp only [slice]
  rw [hF, flatBytes_drop_split pre post m k (by omega)]
  have : flatLen pre + k + x - (flatLen pre + k) = x := by omega
  rw [this, List.take_append]
  have : x - (m.data.drop k).length = 0 := by simp; omega
  rw [this, List.take_zero, List.append_nil]

theorem Ordered.tail {x : CSpec} {xs : List CSpec} (h : Ordered (x :: xs)) : Ordered xs := by
  cases xs with
  | nil => trivial
  | cons y ys => exact h.2

theorem ordered_ge {F : File} : ∀ (xs : List CSpec) (x : CSpec), Ordered (x :: xs) →
    (∀ y ∈ x :: xs, y.Valid F) → ∀ y ∈ xs, x.q ≤ y.p := by
  intro xs
  induction xs with
  | nil => intro x _ _ y hy; cases hy
  | cons z zs ih =>
    intro x ho hv y hy
    rcases List.mem_cons.mp hy with rfl | hy
    · exact ho.1
    · have h1 := ih z ho.2 (fun w hw => hv w (by simp [hw])) y hy
      have h2 := (hv z (by simp)).le
      have h3 := ho.1
      omega

/-- Beyond the end of the data nothing is expected. -/
theorem expected_beyond {F : File} (xs : List CSpec) (t : Nat) (ht : flatLen F ≤ t)
    (h : ∀ y ∈ xs, t ≤ y.p) : expected F xs = [] := by
  induction xs with
  | nil => rfl
  | cons y ys ih =>
    simp only [expected]
    rw [slice_beyond F y.p y.q (by have := h y (by simp); omega), ih (fun w hw => h w (by simp [hw]))]
    rfl

/-- The invariant of a ChunkReader between calls: the bgzf reader stands at logical position `pos` inside
the first chunk, in Blocked mode, and its last `End` is its concrete position. `rem` = members after the
current one (for the progress measure). -/
structure CRInv (F : File) (r : Reader) (xs : List CSpec) (pos rem : Nat) : Prop where
  valid : ∀ x ∈ xs, x.Valid F
  ordered : Ordered xs
  blocked : r.blocked = true
  at_ : ∃ pre m post k, At F r pre m post k ∧ pos = flatLen pre + k ∧
      r.lastChunk.fin = ⟨csum pre, k⟩ ∧ rem = post.length
  range : ∀ x rest, xs = x :: rest → x.p ≤ pos ∧ pos ≤ x.q

/-- A chunk whose `End` is not after the reader's last `End` has nothing left. -/
theorem exhausted_pos {F pre post : File} {m : Member} {k : Nat} (hwf : WF F) (hF : F = pre ++ m :: post)
    (hk : k ≤ m.data.length) {E : Offset} {q : Nat} (hE : toLogical (layoutOf F) E = some q)
    (hv : vOffset E ≤ vOffset ⟨csum pre, k⟩) : q ≤ flatLen pre + k := by
  have hm := (WF.mid (hF ▸ hwf)).2
  simp only [vOffset] at hv
  rcases finLoc hwf hF hE with ⟨h1, h2, h3⟩ | ⟨mid, mE, postE, h0, h1, h2, h3⟩ | ⟨h1, h2, h3⟩ | ⟨preE, mE, mid, h0, h1, h2, h3⟩
  · rw [h1] at hv; omega
  · exfalso
    have := (WF.mid (hF ▸ hwf)).1
    rw [h1] at hv; simp [csum] at hv; omega
  · exfalso
    have := csum_lt_of_split pre post m (hF ▸ hwf)
    rw [h1, hF] at hv; omega
  · rw [h3, h0]; simp [flatLen]; omega

theorem todo_head (F : File) (y : CSpec) (rest : List CSpec) :
    todo F (y :: rest) y.p = expected F (y :: rest) := rfl

/-- The chunk-skipping loop at the head of `Read`. -/
theorem advance_spec {F : File} (hwf : WF F) :
    ∀ (xs : List CSpec) (r : Reader) (pos rem : Nat), CRInv F r xs pos rem →
      (∃ r' ch, ChunkReader.advance r (xs.map (·.c)) = (r', ch, some .eof) ∧ todo F xs pos = []) ∨
      (∃ r' x xs' pos' rem', ChunkReader.advance r (xs.map (·.c)) = (r', (x :: xs').map (·.c), none) ∧
        CRInv F r' (x :: xs') pos' rem' ∧ todo F xs pos = todo F (x :: xs') pos' ∧
        vOffset r'.lastChunk.fin < vOffset x.c.fin ∧
        ((x :: xs' = xs ∧ pos' = pos ∧ rem' = rem) ∨ (x :: xs').length < xs.length)) := by
  intro xs
  induction xs with
  | nil =>
    intro r pos rem _
    exact Or.inl ⟨r, [], rfl, rfl⟩
  | cons x rest ih =>
    intro r pos rem h
    by_cases hex : vOffset x.c.fin ≤ vOffset r.lastChunk.fin
    · -- the first chunk has nothing left
      obtain ⟨pre, m, post, k, hat, hpos, hfin, hrem⟩ := h.at_
      have hq : x.q ≤ pos := by
        rw [hpos]; rw [hfin] at hex
        exact exhausted_pos hwf hat.split hat.le (h.valid x (by simp)).fin hex
      have hrange := h.range x rest rfl
      have hpq : pos = x.q := by omega
      have htodo : todo F (x :: rest) pos = expected F rest := by
        simp [todo, hpq, slice_self]
      cases rest with
      | nil =>
        refine Or.inl ⟨r, [], ?_, by rw [htodo]; rfl⟩
        simp [ChunkReader.advance, hex]
      | cons y rest' =>
        have hvy := h.valid y (by simp)
        have ⟨k1, k2, k3, pre', m', post', k4, k5, k6⟩ := seek_at hwf hat.sim y.c.bgn y.p hvy.bgn
        rcases hsk : r.seek y.c.bgn with ⟨r1, e⟩
        rw [hsk] at k1 k2 k3 k4
        simp only at k1 k2 k3 k4
        subst k1
        have hadv : ChunkReader.advance r ((x :: y :: rest').map (·.c)) =
            ChunkReader.advance r1 ((y :: rest').map (·.c)) := by
          simp [ChunkReader.advance, hex, hsk]
        have hinv : CRInv F r1 (y :: rest') y.p post'.length := by
          refine ⟨fun w hw => h.valid w (by simp [hw]), h.ordered.tail, k3.trans h.blocked,
            ⟨pre', m', post', _, k4, k6, by rw [k2]; exact k5, rfl⟩, ?_⟩
          intro w rest'' hw
          simp only [List.cons.injEq] at hw
          rw [← hw.1]; exact ⟨Nat.le_refl _, hvy.le⟩
        rw [hadv, htodo, ← todo_head]
        rcases ih r1 y.p post'.length hinv with ⟨r', ch, e1, e2⟩ | ⟨r', x', xs', pos', rem', e1, e2, e3, e4, e5⟩
        · exact Or.inl ⟨r', ch, e1, e2⟩
        · refine Or.inr ⟨r', x', xs', pos', rem', e1, e2, e3, e4, Or.inr ?_⟩
          rcases e5 with ⟨e5, _, _⟩ | e5
          · rw [e5]; simp
          · simp at e5 ⊢; omega
    · refine Or.inr ⟨r, x, rest, pos, rem, ?_, h, rfl, by omega, Or.inl ⟨rfl, rfl, rfl⟩⟩
      simp [ChunkReader.advance, hex]

end Hts.Model.Bgzf
