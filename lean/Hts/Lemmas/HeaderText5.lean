/-
C07 helper lemmas, part 14: the @HD line; a whole serialised header parses back to the same view.
-/
import Hts.Lemmas.HeaderText4
namespace Hts.Model.Header

instance (s : Bytes) : Decidable (Clean s) := by unfold Clean; infer_instance

theorem hdFields_other : ∀ (ts : Tags) (f : HdrF), (∀ tv ∈ ts, tv.1 ∉ knownHd) →
    hdFields f (ts.map fieldOf) = ({ f with other := f.other ++ ts }, .ok) := by
  intro ts
  induction ts with
  | nil => intro f _; simp [hdFields]
  | cons tv ts ih =>
    intro f h
    obtain ⟨t, v⟩ := tv
    have ht := h (t, v) List.mem_cons_self
    simp only [knownHd, List.mem_cons, List.not_mem_nil, or_false, not_or] at ht
    obtain ⟨h1, h2, h3⟩ := ht
    simp only [List.map_cons, hdFields, parseField_fieldOf, h1, h2, h3, if_false]
    rw [ih _ (fun tv' h' => h tv' (List.mem_cons_of_mem _ h'))]
    simp

theorem sortOrder_rt (so : Int) (h : 0 ≤ so ∧ so ≤ 3) : sortOrderOf (sortOrderStr so) = so ∧ Clean (sortOrderStr so) := by
  have : so = 0 ∨ so = 1 ∨ so = 2 ∨ so = 3 := by omega
  rcases this with rfl | rfl | rfl | rfl <;> exact ⟨by decide, by decide⟩

theorem groupOrder_rt (g : Int) (h : 1 ≤ g ∧ g ≤ 3) : groupOrderOf (groupOrderStr g) = g ∧ Clean (groupOrderStr g) := by
  have : g = 1 ∨ g = 2 ∨ g = 3 := by omega
  rcases this with rfl | rfl | rfl <;> exact ⟨by decide, by decide⟩

/-- the header fields an API-built header may hold -/
structure WFHd (f : HdrF) : Prop where
  /-- a version is present whenever any @HD field is set (the format has nowhere else to store them) -/
  hd : f.version = [] → f.so = 0 ∧ f.go = 0 ∧ f.other = []
  ver : Clean f.version
  so : 0 ≤ f.so ∧ f.so ≤ 3
  go : 0 ≤ f.go ∧ f.go ≤ 3
  other : WFOther knownHd f.other
  live : f.dead = false
  comments : ∀ c ∈ f.comments, 10 ∉ c ∧ 13 ∉ c

theorem hdTags_clean {f : HdrF} (wf : WFHd f) : CleanTags (hdTags f) := by
  unfold hdTags
  refine cleanTags_append (cleanTags_append ?_ ?_) wf.other.clean
  · exact cleanTags_append (cleanTags_one _ _ (by decide) wf.ver) (cleanTags_one _ _ (by decide) (sortOrder_rt _ wf.so).2)
  · split
    · exact cleanTags_nil
    · next h => exact cleanTags_one _ _ (by decide) (groupOrder_rt _ ⟨by have := wf.go.1; omega, wf.go.2⟩).2

theorem parseLine_hd (E : Ext) {w : World} {hn : Nat} (hf : w.hdrs[hn]? = some {}) (f : HdrF) (wf : WFHd f)
    (hver : f.version ≠ []) :
    parseLine E w hn (lineB "@HD" (hdTags f)) =
      (setHdr w hn { version := f.version, so := f.so, go := f.go, other := f.other }, .ok) := by
  have hsplit := lineB_split "@HD" (notin_str_at 9 (Or.inl rfl) _ (Or.inr (Or.inr (Or.inr rfl)))) _ (hdTags_clean wf)
  have hl : lineB "@HD" (hdTags f) = 64 :: 72 :: 68 :: (hdTags f).flatMap fieldBytes := rfl
  have hh : headerLine {} (lineB "@HD" (hdTags f)) =
      ({ version := f.version, so := f.so, go := f.go, other := f.other }, .ok) := by
    unfold headerLine
    rw [hsplit]
    unfold hdTags
    simp only [List.map_append, List.map_cons, List.map_nil, List.cons_append, List.nil_append]
    simp only [hdFields, parseField_fieldOf]
    have e1 : ¬ (TAG "SO" = TAG "VN") := by decide
    simp only [e1, if_true, if_false, ne_eq, not_true_eq_false, (sortOrder_rt _ wf.so).1]
    by_cases hg : f.go = 0
    · simp only [hg, if_true, List.map_nil, List.nil_append]
      rw [hdFields_other _ _ wf.other.unknown]
      simp [hver, hg]
    · have e2 : ¬ (TAG "GO" = TAG "VN") := by decide
      have e3 : ¬ (TAG "GO" = TAG "SO") := by decide
      simp only [hg, if_false, List.map_cons, List.map_nil, List.cons_append, List.nil_append, hdFields,
        parseField_fieldOf, e2, e3, if_true, ne_eq, not_true_eq_false, (groupOrder_rt _ ⟨by have := wf.go.1; omega, wf.go.2⟩).1]
      rw [hdFields_other _ _ wf.other.unknown]
      simp [hver]
  unfold parseLine
  rw [hl]
  simp only [hf]
  rw [← hl, hh]
  simp

/-- all lines of the serialised header -/
def allLines (v : View) : List Bytes :=
  (if v.f.version = [] then [] else [lineB "@HD" (hdTags v.f)]) ++
    v.refs.map (fun x => lineB "@SQ" (refTags x.2.1 x.2.2)) ++
    v.rgs.map (fun x => lineB "@RG" (rgTags x.2.1 x.2.2)) ++
    v.pgs.map (fun x => lineB "@PG" (pgTags x.2.1 x.2.2)) ++
    v.f.comments.map (fun c => str "@CO\t" ++ c)

theorem flatMap_map' {β γ δ : Type} (f : β → γ) (g : γ → List δ) : ∀ (l : List β),
    (l.map f).flatMap g = l.flatMap (fun x => g (f x)) := by
  intro l; induction l with
  | nil => rfl
  | cons a l ih => simp [ih]

theorem marshalView_lines (v : View) : marshalView v = (allLines v).flatMap (· ++ [10]) := by
  unfold marshalView allLines
  simp only [List.flatMap_append, flatMap_map', line_eq]
  split <;> simp

/-- the well-formedness of everything a header exposes (`E`: date and URI parsing) -/
structure WFView (E : Ext) (v : View) : Prop where
  hd : WFHd v.f
  refs : ∀ r ∈ v.refs, WFRef E r.2.1 r.2.2 ∧ normRef r.2.2 = r.2.2
  rgs : ∀ r ∈ v.rgs, WFRg E r.2.1 r.2.2
  pgs : ∀ r ∈ v.pgs, WFPg r.2.1 r.2.2
  idr : ∀ (i : Nat) r, v.refs[i]? = some r → r.1 = (i : Int)
  idg : ∀ (i : Nat) r, v.rgs[i]? = some r → r.1 = (i : Int)
  idp : ∀ (i : Nat) r, v.pgs[i]? = some r → r.1 = (i : Int)
  ndr : (v.refs.map (·.2.1)).Nodup
  ndg : (v.rgs.map (·.2.1)).Nodup
  ndp : (v.pgs.map (·.2.1)).Nodup

theorem ids_ext {β : Type} : ∀ (l1 l2 : List (Int × β)) (n : Nat),
    (∀ (i : Nat) x, l1[i]? = some x → x.1 = ((n + i : Nat) : Int)) → (∀ (i : Nat) x, l2[i]? = some x → x.1 = ((n + i : Nat) : Int)) →
    l1.map (·.2) = l2.map (·.2) → l1 = l2 := by
  intro l1
  induction l1 with
  | nil => intro l2 n _ _ h; cases l2 <;> simp_all
  | cons a l1 ih =>
    intro l2 n h1 h2 h
    cases l2 with
    | nil => simp at h
    | cons b l2 =>
      simp only [List.map_cons, List.cons.injEq] at h
      have ea := h1 0 a (by simp)
      have eb := h2 0 b (by simp)
      have : a = b := Prod.ext (by rw [ea, eb]) h.1
      subst this
      congr 1
      exact ih l2 (n + 1) (fun i x hx => by have := h1 (i + 1) x (by simpa using hx); rw [this]; congr 1; omega)
        (fun i x hx => by have := h2 (i + 1) x (by simpa using hx); rw [this]; congr 1; omega) h.2

theorem items_ids {α : Type} {k : KW α} {h : Nat} {t : Tab} (ht : k.tabs[h]? = some t) (T : TabInv k.heap h t)
    (i : Nat) (x : Int × Bytes × α) (hx : (items k h)[i]? = some x) : x.1 = (i : Int) := by
  obtain ⟨o, y, hi, hy, e⟩ := (items_get ht T i x).1 hx
  subst e; exact (T.listed hi hy).2

theorem pushHeader_items (w : World) (hw : WInv w) :
    items (pushHeader w {}).refs w.hdrs.length = [] ∧ items (pushHeader w {}).rgs w.hdrs.length = [] ∧
    items (pushHeader w {}).pgs w.hdrs.length = [] ∧ (pushHeader w {}).hdrs[w.hdrs.length]? = some {} ∧
    w.hdrs.length < (pushHeader w {}).hdrs.length := by
  refine ⟨?_, ?_, ?_, by simp [pushHeader], by simp [pushHeader]⟩
  · unfold items; simp [pushHeader, KW.newTab, ← hw.lr]
  · unfold items; simp [pushHeader, KW.newTab, ← hw.lg]
  · unfold items; simp [pushHeader, KW.newTab, ← hw.lp]

end Hts.Model.Header
