/-
What `csi.ReadFrom` establishes: every CSI index it returns is well-formed (`CWF`), so it can be written
and read back (Hts.Lemmas.IndexIOCsi).
-/
import Hts.Lemmas.IndexIOCsi
import Hts.Lemmas.IndexIORead
import Hts.Lemmas.IndexIOTabixRead
namespace Hts.Model.IndexIO
open Hts.Model.Index Hts.Model.Csi

/-- a CSI bin as the reader leaves it -/
def CBinRead (dummy : Nat) (b : CBin) : Prop :=
  b.bin < 4294967296 ∧ b.bin ≠ dummy ∧ OffOK b.left ∧ b.records < 18446744073709551616 ∧
    b.chunks.length < 2147483648 ∧ (∀ c, c ∈ b.chunks → OffOK c.b ∧ OffOK c.e) ∧
    b.chunks.Pairwise (fun a b => leChunk a b = true)

theorem rCBinLoop_spec (version dummy : Nat) : ∀ (k : Nat) (acc : List CBin) (st : Option Stats) (bs : Bytes)
    (bins : List CBin) (st' : Option Stats) (rest : Bytes),
    rCBinLoop version dummy k acc st bs = .ok ((bins, st'), rest) →
    (∀ b, b ∈ acc → CBinRead dummy b) → (∀ s, st = some s → StatsRead s) →
    (∀ b, b ∈ bins → CBinRead dummy b) ∧ (∀ s, st' = some s → StatsRead s) ∧
      bins.length + (if st'.isSome then 1 else 0) ≤ acc.length + (if st.isSome then 1 else 0) + k := by
  intro k
  induction k with
  | zero =>
    intro acc st bs bins st' rest h hacc hst
    simp only [rCBinLoop, Except.ok.injEq, Prod.mk.injEq] at h
    obtain ⟨⟨rfl, rfl⟩, _⟩ := h
    exact ⟨fun b hb => hacc b (List.mem_reverse.1 hb), hst, by simp⟩
  | succ k ih =>
    intro acc st bs bins st' rest h hacc hst
    unfold rCBinLoop at h
    split at h
    · cases h
    · rename_i bin r1 h1
      split at h
      · cases h
      · rename_i left r2 h2
        split at h
        · cases h
        · rename_i recs r3 h3
          have hrecs : recs < 18446744073709551616 := by
            split at h3
            · exact rU64_spec h3
            · simp only [Except.ok.injEq, Prod.mk.injEq] at h3
              omega
          split at h
          · cases h
          · rename_i n r4 h4
            split at h
            · split at h
              · cases h
              · split at h
                · cases h
                · rename_i s r5 h5
                  obtain ⟨g1, g2, g3⟩ := ih acc (some s) r5 bins st' rest h hacc
                    (by intro s' hs'; cases hs'; exact rStatsBody_spec h5)
                  refine ⟨g1, g2, ?_⟩
                  simp only [Option.isSome_some, if_true] at g3
                  omega
            · rename_i hne
              split at h
              · cases h
              · rename_i cs r5 h5
                have hn := (rI32_spec h4).2
                obtain ⟨c1, c2, c3⟩ := rChunks_spec hn h5
                obtain ⟨g1, g2, g3⟩ := ih (⟨bin, left, recs, cs⟩ :: acc) st r5 bins st' rest h
                  (by
                    intro b hb
                    rcases List.mem_cons.1 hb with rfl | hb
                    · exact ⟨rU32_spec h1, hne, rOff_spec h2, hrecs, c1, c2, c3⟩
                    · exact hacc b hb)
                  hst
                refine ⟨g1, g2, ?_⟩
                simp only [List.length_cons] at g3
                omega

theorem rCBins_spec (version binLimit : Nat) {bs : Bytes} {bins : List CBin} {st : Option Stats} {rest : Bytes}
    (h : rCBins version binLimit bs = .ok ((bins, st), rest)) :
    CRefBounds version binLimit ⟨bins, st⟩ ∧ CRefSorted ⟨bins, st⟩ := by
  unfold rCBins at h
  split at h
  · cases h
  · rename_i n r1 h1
    split at h
    · simp only [Except.ok.injEq, Prod.mk.injEq] at h
      obtain ⟨⟨rfl, rfl⟩, _⟩ := h
      exact ⟨{ nb := by simp, nb31 := by simp, bins := (by intro b hb; cases hb), stats := (by intro s hs; cases hs) },
             { bins := List.Pairwise.nil, chunks := (by intro b hb; cases hb) }⟩
    · split at h
      · cases h
      · split at h
        · cases h
        · rename_i hn0 hneg hlim
          split at h
          · cases h
          · rename_i bins0 st0 r2 h2
            simp only [Except.ok.injEq, Prod.mk.injEq] at h
            obtain ⟨⟨rfl, rfl⟩, _⟩ := h
            obtain ⟨g1, g2, g3⟩ := rCBinLoop_spec version (binLimit + 1) _ [] none r1 bins0 _ r2 h2
              (by intro b hb; cases hb) (by intro s hs; cases hs)
            have hn := (rI32_spec h1).2
            have hlen := (List.mergeSort_perm bins0 leCBin).length_eq
            simp only [List.length_nil, Option.isSome_none, Bool.false_eq_true, if_false] at g3
            refine ⟨{ nb := ?_, nb31 := ?_, bins := ?_, stats := g2 }, { bins := ?_, chunks := ?_ }⟩
            · simp only; rw [hlen]; omega
            · simp only; rw [hlen]; omega
            · intro b hb
              obtain ⟨a1, a2, a3, a4, a5, a6, _⟩ := g1 b ((List.mergeSort_perm bins0 leCBin).mem_iff.1 hb)
              exact ⟨a1, a2, a3, a4, a5, a6⟩
            · exact List.pairwise_mergeSort leCBin_trans leCBin_total _
            · intro b hb
              exact (g1 b ((List.mergeSort_perm bins0 leCBin).mem_iff.1 hb)).2.2.2.2.2.2

theorem rCRef_spec (version binLimit : Nat) {bs : Bytes} {r : CRef} {rest : Bytes}
    (h : rCRef version binLimit bs = .ok (r, rest)) : CRefBounds version binLimit r ∧ CRefSorted r := by
  unfold rCRef at h
  split at h
  · rename_i bins st r1 h1
    simp only [Except.ok.injEq, Prod.mk.injEq] at h
    obtain ⟨rfl, _⟩ := h
    exact rCBins_spec version binLimit h1
  · cases h

theorem rCRefs_spec (version binLimit : Nat) {n : Int} (hn : n < 2147483648) {bs : Bytes} {refs : List CRef}
    {rest : Bytes} (h : rCRefs version binLimit n bs = .ok (refs, rest)) :
    refs.length < 2147483648 ∧ ∀ r, r ∈ refs → CRefBounds version binLimit r ∧ CRefSorted r := by
  unfold rCRefs at h
  split at h
  · simp only [Except.ok.injEq, Prod.mk.injEq] at h
    obtain ⟨rfl, _⟩ := h
    exact ⟨by simp, by intro r hr; cases hr⟩
  · obtain ⟨_, hl, hq⟩ := counted_spec (rCRef version binLimit)
      (fun r => CRefBounds version binLimit r ∧ CRefSorted r)
      (fun _ _ _ hh => rCRef_spec version binLimit hh) _ _ _ _ h
    exact ⟨by omega, hq⟩

theorem rAux_spec {na : Int} (hn : na < 2147483648) {bs aux rest : Bytes} (h : rAux na bs = .ok (aux, rest)) :
    aux.length < 2147483648 := by
  unfold rAux at h
  split at h
  · have := rBytes_spec h; omega
  · simp only [Except.ok.injEq, Prod.mk.injEq] at h
    obtain ⟨rfl, _⟩ := h
    simp

/-- `csi.ReadFrom`: whatever bytes it accepts, the index it returns is well-formed -/
theorem readCsi_wf {bs : Bytes} {i : CIndex} (h : readCsi bs = .ok i) : CWF i := by
  unfold readCsi at h
  split at h
  · cases h
  · split at h
    · cases h
    · split at h
      · cases h
      · rename_i v r2 _
        split at h
        · cases h
        · rename_i hv
          split at h
          · cases h
          · rename_i ms r3 h3
            split at h
            · cases h
            · rename_i hms
              split at h
              · cases h
              · rename_i dp r4 h4
                split at h
                · cases h
                · rename_i hdp
                  split at h
                  · cases h
                  · rename_i hgeom
                    split at h
                    · cases h
                    · rename_i na r5 h5
                      split at h
                      · cases h
                      · rename_i aux r6 h6
                        split at h
                        · cases h
                        · rename_i n r7 h7
                          split at h
                          · cases h
                          · rename_i refs r8 h8
                            split at h
                            · cases h
                            · rename_i um hum
                              simp only [Except.ok.injEq] at h
                              subst h
                              obtain ⟨hl, hq⟩ := rCRefs_spec v.toNat (csiBinLimit dp.toNat) (rI32_spec h7).2 h8
                              have hms31 := (rI32_spec h3).2
                              refine
                                { version := ?_, minShift := by simp only; omega, geom := by simp only; omega,
                                  aux := rAux_spec (rI32_spec h5).2 h6, nrefs := hl, bounds := fun r hr => (hq r hr).1,
                                  flag := fun _ r hr => (hq r hr).2, um := ?_ }
                              · simp only
                                omega
                              · intro m hm
                                simp only at hm
                                subst hm
                                unfold rUnmapped at hum
                                split at hum
                                · cases hum
                                · split at hum
                                  · rename_i k r9 h9
                                    simp only [Except.ok.injEq, Option.some.injEq] at hum
                                    subst hum
                                    exact rU64_spec h9
                                  · cases hum

end Hts.Model.IndexIO
