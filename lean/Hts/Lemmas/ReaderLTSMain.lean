/-
Read-ahead protocol: the invariant holds in every reachable state; dead-lock freedom.
-/
import Hts.Lemmas.ReaderLTSApi
namespace Hts.Model.ReadAhead

variable {cfg : Cfg} {s t : State} {ev : Option Ev}

/-- Configurations covered: at least two decompressors, member sizes positive, a first member exists
(`NewReader` succeeded). -/
structure Cfg.OK (cfg : Cfg) : Prop where
  rd2 : 2 ≤ cfg.rd
  mono : Mono cfg.chain

theorem inv_init (hc : cfg.OK) : Inv cfg (init cfg) := by
  refine ⟨hc.rd2, hc.mono, by simp [init, Worker.holds, Cons.holds], by simp [init, WFBlk],
    by simp [init], by simp [init], by simp [init, Closing], by simp [init], by simp [init], by simp [init],
    ?_, by simp [init], by simp [init], by simp [init], by simp [init]⟩
  intro _ e he
  refine ⟨[], [], 0, cfg.chain 0, by simp [stream, init, Worker.committed], ?_, by simpa [init, adv] using he,
    by have := hc.rd2; simp; omega⟩
  simp [init, ChainFrom, Worker.natural]

theorem inv_next {l : Label} (hi : Inv cfg s) (h : next cfg s l = some (ev, t)) : Inv cfg t := by
  cases l with
  | api c f => exact api_inv hi h
  | wk f => exact wk_inv hi h

theorem inv_reachable (hc : cfg.OK) (h : Reachable cfg s) : Inv cfg s := by
  induction h with
  | init => exact inv_init hc
  | step _ hs ih =>
    obtain ⟨l, e, hn⟩ := hs
    exact inv_next ih hn

/-- **Dead-lock freedom.** In every state satisfying the invariant some thread can step, unless the consumer
has finished its script (then the worker may be parked on a channel for ever: nobody waits for it). -/
theorem inv_progress (hi : Inv cfg s) : (∃ l e t, next cfg s l = some (e, t)) ∨ ApiDone s := by
  have hcount := hi.count
  cases hc : s.cons with
  | idle =>
    cases hs : s.script with
    | nil => exact Or.inr (Or.inl ⟨hc, hs⟩)
    | cons op rest =>
      left
      cases op with
      | nexts => exact ⟨.api true false, by simp [next, apiStep, hc, hs]⟩
      | next => refine ⟨.api false false, ?_⟩; cases hn : s.cur.next <;> simp [next, apiStep, hc, hs, hn]
      | seek off =>
        refine ⟨.api false false, ?_⟩
        by_cases hf : s.cur.base = some off ∧ good s.cur = true <;> simp [next, apiStep, hc, hs, hf]
      | close => exact ⟨.api false false, by simp [next, apiStep, hc, hs]⟩
      | note id => exact ⟨.api false false, by simp [next, apiStep, hc, hs]⟩
  | scan e i =>
    left
    have hx := hi.expScan e i hc
    have hnc := not_closing_flags hi (by simp [Closing, hc])
    cases hw : s.working with
    | cons b rest =>
      refine ⟨.api false false, ?_⟩
      simp only [next, apiStep, hc, hw, Bool.or_self, Bool.false_eq_true, if_false]
      split
      · exact ⟨_, _, rfl⟩
      · split
        · exact ⟨_, _, rfl⟩
        · split <;> exact ⟨_, _, rfl⟩
    | nil =>
      rw [hc, hw] at hcount
      simp only [Cons.holds, List.length_nil] at hcount
      cases hwk : s.worker with
      | idle nx =>
        refine ⟨.wk false, ?_⟩
        have : 0 < s.waiting := by rw [hwk] at hcount; simp [Worker.holds] at hcount; have := hi.rd2; omega
        simp only [next, wkStep, hwk, Bool.false_eq_true, if_false, this, if_true]
        exact ⟨_, _, rfl⟩
      | «have» nx =>
        refine ⟨.wk false, ?_⟩
        simp only [next, wkStep, hwk, Bool.false_eq_true, if_false]
        cases hctl : s.control with
        | some v => simp only; split <;> exact ⟨_, _, rfl⟩
        | none =>
          simp only [hnc.1, Bool.false_eq_true, if_false]
          cases nx with
          | some b => exact ⟨_, _, rfl⟩
          | none =>
            exfalso
            obtain ⟨old, new, d, T, hst, hcl, hadv, _⟩ := hx
            have hs0 : stream s = [] := by simp [stream, hw, hwk, Worker.committed]
            rw [hs0] at hst
            have hnew : new = [] := by
              cases new with
              | nil => rfl
              | cons a l => cases old <;> simp at hst
            rw [hctl, hnew] at hcl
            simp only [ChainFrom, hwk, Worker.natural] at hcl
            rw [← hcl, adv_none] at hadv; cases hadv
      | load x =>
        refine ⟨.wk false, ?_⟩
        obtain ⟨r, hr⟩ := doLoad_enabled cfg s x
        simp only [next, wkStep, hwk, hr]
        exact ⟨_, _, rfl⟩
      | push b =>
        refine ⟨.wk false, ?_⟩
        have : s.working.length < cfg.rd := by rw [hw]; simp; have := hi.rd2; omega
        simp only [next, wkStep, hwk, Bool.false_eq_true, if_false, this, if_true]
        exact ⟨_, _, rfl⟩
      | exited hh =>
        exfalso
        have := hi.exited hh hwk
        rw [hnc.1] at this; cases this
  | fetch e =>
    left
    obtain ⟨r, hr⟩ := doLoad_enabled cfg s (some e)
    exact ⟨.api false false, by simp only [next, apiStep, hc, Bool.false_eq_true, if_false, hr]; exact ⟨_, _, rfl⟩⟩
  | sync off =>
    left
    obtain ⟨r, hr⟩ := doLoad_enabled cfg s (some off)
    exact ⟨.api false false, by simp only [next, apiStep, hc, Bool.false_eq_true, if_false, hr]; exact ⟨_, _, rfl⟩⟩
  | sel off =>
    left
    rw [hc] at hcount
    simp only [Cons.holds] at hcount
    by_cases hwt : 0 < s.waiting
    · exact ⟨.api false false, by simp only [next, apiStep, hc, Bool.false_eq_true, if_false, hwt, if_true]; exact ⟨_, _, rfl⟩⟩
    · cases hw : s.working with
      | nil =>
        exfalso
        rw [hw] at hcount
        have : s.worker.holds ≤ 1 := by cases s.worker <;> simp [Worker.holds] <;> split <;> simp
        have := hi.rd2
        simp at hcount; omega
      | cons b rest =>
        refine ⟨.api true false, ?_⟩
        simp only [next, apiStep, hc, Bool.false_eq_true, if_false, if_true, hw]
        split <;> exact ⟨_, _, rfl⟩
  | drain w =>
    left
    exact ⟨.api false false, by simp only [next, apiStep, hc, Bool.or_self, Bool.false_eq_true, if_false]; exact ⟨_, _, rfl⟩⟩
  | send w =>
    left
    have := (hi.atSend w hc).2
    exact ⟨.api false false, by simp only [next, apiStep, hc, Bool.or_self, Bool.false_eq_true, if_false, this]; exact ⟨_, _, rfl⟩⟩
  | ret ok =>
    left
    exact ⟨.api false false, by simp only [next, apiStep, hc, Bool.or_self, Bool.false_eq_true, if_false]; exact ⟨_, _, rfl⟩⟩
  | closeW =>
    left
    exact ⟨.api false false, by simp only [next, apiStep, hc, Bool.or_self, Bool.false_eq_true, if_false]; exact ⟨_, _, rfl⟩⟩
  | join =>
    left
    have hwtc : s.wtClosed = true := hi.wt.mpr (Or.inl hc)
    have hctlc : s.ctlClosed = true := hi.ctl.mpr (by simp [Closing, hc])
    rw [hc] at hcount
    simp only [Cons.holds] at hcount
    cases hwk : s.worker with
    | exited hh =>
      exact ⟨.api false false, by simp only [next, apiStep, hc, Bool.or_self, Bool.false_eq_true, if_false, hwk]; exact ⟨_, _, rfl⟩⟩
    | idle nx =>
      refine ⟨.wk false, ?_⟩
      simp only [next, wkStep, hwk, Bool.false_eq_true, if_false, hwtc, if_true]
      split <;> exact ⟨_, _, rfl⟩
    | «have» nx =>
      refine ⟨.wk false, ?_⟩
      simp only [next, wkStep, hwk, Bool.false_eq_true, if_false, hctlc, if_true]
      cases s.control with
      | some v => simp only; split <;> exact ⟨_, _, rfl⟩
      | none => exact ⟨_, _, rfl⟩
    | load x =>
      refine ⟨.wk false, ?_⟩
      obtain ⟨r, hr⟩ := doLoad_enabled cfg s x
      simp only [next, wkStep, hwk, hr]
      exact ⟨_, _, rfl⟩
    | push b =>
      refine ⟨.wk false, ?_⟩
      have : s.working.length < cfg.rd := by rw [hwk] at hcount; simp [Worker.holds] at hcount; omega
      simp only [next, wkStep, hwk, Bool.false_eq_true, if_false, this, if_true]
      exact ⟨_, _, rfl⟩
  | closed => exact Or.inr (Or.inr hc)
  | panicked => exact absurd hc hi.nopanic

end Hts.Model.ReadAhead
