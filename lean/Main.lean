/-
Model driver: one operation per input line, one result per output line.
Core Lean only (no Mathlib, no BVDecide) so that it links as a `lean_exe`.
-/
import Hts.Drv.C20

def dispatch (line : String) : String :=
  match (line.trimAscii.toString.splitOn " ").filter (· ≠ "") with
  | [] => "bad-op"
  | cmd :: args =>
    let r :=
      if cmd.startsWith "itf8." || cmd.startsWith "ltf8." then Hts.Drv.C20.handle cmd args
      else none
    match r with
    | some s => s
    | none => "bad-op"

partial def loop (h : IO.FS.Stream) (out : IO.FS.Stream) : IO Unit := do
  let line ← h.getLine
  if line.isEmpty then
    out.flush
    return ()
  out.putStrLn (dispatch line)
  loop h out

def main : IO Unit := do
  let stdin ← IO.getStdin
  let stdout ← IO.getStdout
  loop stdin stdout
