/-
Model driver: one operation per input line, one result per output line.
Core Lean only (no Mathlib, no BVDecide) so that it links as a `lean_exe`.
Each property's commands live in Hts/Drv/<ID>.lean; the first handler that accepts a command answers.
-/
import Hts.Drv.C01
import Hts.Drv.C02
import Hts.Drv.C03
import Hts.Drv.C04
import Hts.Drv.C05
import Hts.Drv.C06
import Hts.Drv.C07
import Hts.Drv.C08
import Hts.Drv.C09
import Hts.Drv.C10
import Hts.Drv.C11
import Hts.Drv.C12
import Hts.Drv.C13
import Hts.Drv.C14
import Hts.Drv.C15
import Hts.Drv.C16
import Hts.Drv.C17
import Hts.Drv.C18
import Hts.Drv.C19
import Hts.Drv.C20

def handlers : List (String → List String → Option String) :=
  [Hts.Drv.C01.handle, Hts.Drv.C02.handle, Hts.Drv.C03.handle, Hts.Drv.C04.handle, Hts.Drv.C05.handle, Hts.Drv.C06.handle, Hts.Drv.C07.handle, Hts.Drv.C08.handle, Hts.Drv.C09.handle, Hts.Drv.C10.handle, Hts.Drv.C11.handle, Hts.Drv.C12.handle, Hts.Drv.C13.handle, Hts.Drv.C14.handle, Hts.Drv.C15.handle, Hts.Drv.C16.handle, Hts.Drv.C17.handle, Hts.Drv.C18.handle, Hts.Drv.C19.handle, Hts.Drv.C20.handle]

def dispatch (line : String) : String :=
  match (line.trimAscii.toString.splitOn " ").filter (· ≠ "") with
  | [] => "bad-op"
  | cmd :: args =>
    match handlers.findSome? (fun h => h cmd args) with
    | some s => s
    | none => "bad-op"

partial def loop (h : IO.FS.Stream) (out : IO.FS.Stream) : IO Unit := do
  let line ← h.getLine
  if line.isEmpty then
    out.flush
    return ()
  out.putStrLn (dispatch line)
  loop h out

def main : IO Unit := do
  let stdin ← IO.getStdin
  let stdout ← IO.getStdout
  loop stdin stdout
