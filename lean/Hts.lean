-- Root of the `Hts` library: every model, specification, lemma, property and tie module.
import Hts.Props.C20
import Hts.Tie.C20
import Hts.Drv.C20
